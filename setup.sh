#!/bin/sh
# Offline set-up: warm the build caches used by the checks (nothing is fetched).
set -e
cd "$(dirname "$0")"
export CARGO_NET_OFFLINE=true
mkdir -p .cache evidence replays
python3-vt - <<'PY'
import sys
sys.path.insert(0, "lib")
from nlv.overlay import native_overlay
o = native_overlay()
o.build_native()
o.build_native(release=True)
o.cleanup()
print("native observation layer builds")
PY
