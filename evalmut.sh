#!/bin/bash
# usage: evalmut.sh <patch file> <check ids...>   — apply a seeded change to /repo, run the checks, undo it
patch="$1"; shift
cd /repo && git status --short | grep -q . && { echo "repo not clean"; exit 9; }
git -C /repo apply "$patch" || { echo "patch does not apply"; exit 9; }
for c in "$@"; do
  start=$(date +%s)
  out=$(cd /verif && ./check $c 2>&1; echo "__rc=$?" )
  rc=$(echo "$out" | grep -o "__rc=[0-9]*" | cut -d= -f2)
  echo "== $c exit=$rc ($(( $(date +%s) - start ))s)"
  echo "$out" | grep -E "^(VIOLATION|UNREPRODUCED|KNOWN|INCONCLUSIVE)|^  key=" | cut -c1-400 | head -8
done
git -C /repo checkout -- . ; git -C /repo status --short | head -3
