#!/bin/bash
# usage: verify_mutant.sh <dir with patch.diff + demo_test.rs / demo.nl>   — confirm a seeded change in a scratch worktree of /repo
# prints: tests passed with the change; demo result with / without the change.  The scratch worktree is removed afterwards.
set -u
M="$(cd "$1" && pwd)"
W=/tmp/wt/verify-$$
git -C /repo worktree add --detach "$W" HEAD >/dev/null 2>&1 || { echo "cannot create worktree"; exit 9; }
trap 'git -C /repo worktree remove --force "$W" >/dev/null 2>&1' EXIT
cd "$W"
export CARGO_NET_OFFLINE=true
run_demo() {
  tag="$1"
  if [ -f "$M/demo_test.rs" ]; then
    cp "$M/demo_test.rs" tests/zz_demo_test.rs
    r=$(cargo test --offline --test zz_demo_test 2>&1 | grep -E "^test result" | head -1)
    echo "demo_test [$tag]: $r"
    rm -f tests/zz_demo_test.rs
  fi
  for f in "$M"/demo*.nl; do
    [ -f "$f" ] || continue
    cargo build --offline >/dev/null 2>&1
    out=$(timeout 20 target/debug/nederlang "$f" 2>&1 | head -c 600 | tr '\n' '|'); rc=$?
    echo "$(basename $f) [$tag]: $out"
  done
}
run_demo "without change"
git apply "$M/patch.diff" || { echo "patch does not apply"; exit 9; }
echo "files changed: $(git diff --stat | tail -1)"
echo "suite with change: $(cargo test --offline 2>&1 | grep -E '^test result' | tr '\n' ' ')"
run_demo "WITH change"
