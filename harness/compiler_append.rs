
// ===== appended by /verif (overlay only): read-only accessors to private items of this module =====
#[cfg(nlverif)]
pub(crate) mod __verif_c {
    use super::*;
    pub fn operands(op: OpCode) -> Vec<usize> {
        op.operands().to_vec()
    }
}
