
// ===== appended by /verif (overlay only): Kani proof harnesses for gc.rs (C03, C04) =====
#[cfg(kani)]
pub(crate) mod __verif_k {
    use super::*;
    use crate::object::{FromString, FromVec};

    fn managed(gc: &GC, o: Object) -> bool {
        let mut i = 0;
        let mut found = false;
        while i < gc.objects.len() {
            if std::ptr::eq(gc.objects[i].as_ptr(), o.as_ptr()) { found = true; }
            i += 1;
        }
        found
    }

    /// two floats, any subset of them rooted (through one or two root slices): exactly the rooted ones survive, intact
    #[kani::proof]
    #[kani::unwind(5)]
    fn c03_two_floats() {
        let mut gc = GC::new();
        let a = Object::float(1.5, &mut gc);
        let b = Object::float(2.5, &mut gc);
        let keep_a: bool = kani::any();
        let keep_b: bool = kani::any();
        let ra = [a];
        let rb = [b];
        let empty: [Object; 0] = [];
        let r1: &[Object] = if keep_a { &ra } else { &empty };
        let r2: &[Object] = if keep_b { &rb } else { &empty };
        gc.run(&[r1, r2]);
        assert!(gc.objects.len() == keep_a as usize + keep_b as usize);
        assert!(managed(&gc, a) == keep_a && managed(&gc, b) == keep_b);
        if keep_a { assert!(a.as_f64() == 1.5); }
        if keep_b { assert!(b.as_f64() == 2.5); }
        kani::cover!(keep_a && !keep_b);
        kani::cover!(!keep_a && keep_b);
        kani::cover!(!keep_a && !keep_b);
        // C04: dropping the collector releases what is left, exactly once (a double free is flagged by CBMC)
        gc.destroy();
        assert!(gc.objects.len() == 0);
        std::mem::forget(gc);
    }

    /// concrete heap shape and root set, symbolic payloads
    macro_rules! floats_harness {
        ($name:ident, $keep_a:expr, $keep_b:expr) => {
            #[kani::proof]
            #[kani::unwind(5)]
            fn $name() {
                let mut gc = GC::new();
                let xa: u64 = kani::any();
                let xb: u64 = kani::any();
                let a = Object::float(f64::from_bits(xa), &mut gc);
                let b = Object::float(f64::from_bits(xb), &mut gc);
                let ra = [a];
                let rb = [Object::int(kani::any::<i32>() as isize), b];
                let empty: [Object; 0] = [];
                let r1: &[Object] = if $keep_a { &ra } else { &empty };
                let r2: &[Object] = if $keep_b { &rb } else { &empty };
                gc.run(&[r1, r2]);
                assert!(gc.objects.len() == $keep_a as usize + $keep_b as usize);
                assert!(managed(&gc, a) == $keep_a && managed(&gc, b) == $keep_b);
                if $keep_a { assert!(a.as_f64().to_bits() == xa); }
                if $keep_b { assert!(b.as_f64().to_bits() == xb); }
                gc.destroy();
                assert!(gc.objects.len() == 0);
                kani::cover!(xa == 7);
                std::mem::forget(gc);
            }
        };
    }
    floats_harness!(c03_floats_keep_none, false, false);
    floats_harness!(c03_floats_keep_a, true, false);
    floats_harness!(c03_floats_keep_b, false, true);
    floats_harness!(c03_floats_keep_both, true, true);
}
