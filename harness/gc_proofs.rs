
// ===== appended by /verif (overlay only): Kani proof harnesses for gc.rs (C03, C04) =====
// gc.rs is verbatim; the `bitvec` crate is replaced in the overlay by a Vec<bool> model (harness/shim_bitvec) whose
// get_unchecked/set_unchecked are bounds-CHECKED, so a wrong bitmap index is reported.  Heap shape and root set are
// fixed per harness (a symbolic root subset makes the freed object, hence the tag `Object::free` dispatches on,
// symbolic and CBMC does not finish: measured); payloads are symbolic.  CBMC's memory model reports use after free,
// double free and out-of-bounds accesses on every path.
#[cfg(kani)]
pub(crate) mod __verif_k {
    use super::*;
    use crate::object::{FromString, FromVec};

    fn managed(gc: &GC, o: Object) -> bool {
        let mut i = 0;
        let mut found = false;
        while i < gc.objects.len() {
            if std::ptr::eq(gc.objects[i].as_ptr(), o.as_ptr()) {
                found = true;
            }
            i += 1;
        }
        found
    }

    fn f(gc: &mut GC, bits: u64) -> Object {
        Object::float(f64::from_bits(bits), gc)
    }

    fn is_float(o: Object, bits: u64) -> bool {
        o.tag() == Type::Float && o.as_f64().to_bits() == bits
    }

    macro_rules! floats_harness {
        ($name:ident, $keep_a:expr, $keep_b:expr) => {
            /// two floats; roots spread over two slices; exactly the rooted ones survive, intact; then everything is released
            #[kani::proof]
            #[kani::unwind(5)]
            fn $name() {
                let mut gc = GC::new();
                let xa: u64 = kani::any();
                let xb: u64 = kani::any();
                let a = f(&mut gc, xa);
                let b = f(&mut gc, xb);
                let ra = [a];
                let rb = [Object::int(kani::any::<i32>() as isize), b];
                let empty: [Object; 0] = [];
                let r1: &[Object] = if $keep_a { &ra } else { &empty };
                let r2: &[Object] = if $keep_b { &rb } else { &empty };
                gc.run(&[r1, r2]);
                assert!(gc.objects.len() == $keep_a as usize + $keep_b as usize);
                assert!(managed(&gc, a) == $keep_a && managed(&gc, b) == $keep_b);
                if $keep_a { assert!(is_float(a, xa)); }
                if $keep_b { assert!(is_float(b, xb)); }
                gc.destroy(); // C04: what is left is released exactly once (a double free is a CBMC failure)
                assert!(gc.objects.len() == 0);
                kani::cover!(xa == 7);
                std::mem::forget(gc);
            }
        };
    }
    floats_harness!(c03_floats_keep_none, false, false);
    floats_harness!(c03_floats_keep_a, true, false);
    floats_harness!(c03_floats_keep_b, false, true);
    floats_harness!(c03_floats_keep_both, true, true);

    /// a list holding a float and a text, plus a loose float: root = the list only
    #[kani::proof]
    #[kani::unwind(6)]
    fn c03_list_keeps_its_elements() {
        let mut gc = GC::new();
        let x: u64 = kani::any();
        let inner = f(&mut gc, x);
        let text = Object::string("ab", &mut gc);
        let loose = f(&mut gc, kani::any());
        let list = Object::array(vec![inner, Object::int(3), text], &mut gc);
        gc.run(&[&[list]]);
        assert!(gc.objects.len() == 3);
        assert!(managed(&gc, list) && managed(&gc, inner) && managed(&gc, text) && !managed(&gc, loose));
        let v = list.as_vec();
        assert!(v.len() == 3 && is_float(v[0], x) && v[1].as_int() == 3);
        assert!(v[2].as_str().len() == 2 && v[2].as_str().as_bytes()[0] == b'a');
        // second collection without roots frees the rest
        gc.run(&[]);
        assert!(gc.objects.len() == 0);
        kani::cover!(x == 1);
        std::mem::forget(gc);
    }

    /// the same float in two lists; only one list is rooted: the float survives, the other list goes
    #[kani::proof]
    #[kani::unwind(6)]
    fn c03_alias_through_two_lists() {
        let mut gc = GC::new();
        let x: u64 = kani::any();
        let shared = f(&mut gc, x);
        let a = Object::array(vec![shared], &mut gc);
        let b = Object::array(vec![Object::null(), shared], &mut gc);
        gc.run(&[&[], &[b]]);
        assert!(gc.objects.len() == 2);
        assert!(managed(&gc, b) && managed(&gc, shared) && !managed(&gc, a));
        assert!(is_float(b.as_vec()[1], x));
        gc.destroy();
        assert!(gc.objects.len() == 0);
        kani::cover!(x == 1);
        std::mem::forget(gc);
    }

    /// a list that contains itself and a nested list: marking terminates, everything reachable survives; unrooted, all of it goes once
    #[kani::proof]
    #[kani::unwind(6)]
    fn c03_cycle_and_nesting() {
        let mut gc = GC::new();
        let x: u64 = kani::any();
        let deep = f(&mut gc, x);
        let inner = Object::array(vec![deep], &mut gc);
        let mut outer = Object::array(vec![inner, Object::null()], &mut gc);
        let me = outer;
        outer.as_vec_mut()[1] = me; // cycle
        gc.run(&[&[outer]]);
        assert!(gc.objects.len() == 3);
        assert!(managed(&gc, outer) && managed(&gc, inner) && managed(&gc, deep));
        assert!(is_float(inner.as_vec()[0], x));
        gc.run(&[&[Object::int(1)]]);
        assert!(gc.objects.len() == 0);
        kani::cover!(x == 1);
        std::mem::forget(gc);
    }

    /// multi-step history: a list survives one collection, a fresh value is stored into it, a second collection runs
    #[kani::proof]
    #[kani::unwind(6)]
    fn c03_store_into_survivor_then_collect() {
        let mut gc = GC::new();
        let x: u64 = kani::any();
        let y: u64 = kani::any();
        let first = f(&mut gc, x);
        let mut list = Object::array(vec![first], &mut gc);
        let garbage = f(&mut gc, 1);
        gc.run(&[&[list]]);
        assert!(gc.objects.len() == 2 && !managed(&gc, garbage));
        let fresh = f(&mut gc, y);
        list.as_vec_mut()[0] = fresh; // `first` becomes garbage, `fresh` is reachable only through the survivor
        gc.run(&[&[list]]);
        assert!(gc.objects.len() == 2);
        assert!(managed(&gc, list) && managed(&gc, fresh) && !managed(&gc, first));
        assert!(is_float(list.as_vec()[0], y));
        gc.destroy();
        kani::cover!(x == y);
        std::mem::forget(gc);
    }

    /// hand-over to the caller: untrace(result) releases the whole result graph from the collector; the collector
    /// never frees it afterwards, the caller frees it exactly once, values stored into it later stay alive
    #[kani::proof]
    #[kani::unwind(6)]
    fn c04_untrace_hands_over() {
        let mut gc = GC::new();
        let x: u64 = kani::any();
        let y: u64 = kani::any();
        let inner = f(&mut gc, x);
        let mut result = Object::array(vec![inner, Object::int(2)], &mut gc);
        let other = f(&mut gc, 5);
        gc.untrace(result);
        assert!(gc.objects.len() == 1 && managed(&gc, other) && !managed(&gc, result) && !managed(&gc, inner));
        // a value stored into the handed-over list while something still refers to it (a global of a retained VM)
        let late = f(&mut gc, y);
        result.as_vec_mut()[1] = late;
        gc.run(&[&[result]]);
        assert!(gc.objects.len() == 1 && managed(&gc, late) && !managed(&gc, other));
        assert!(is_float(result.as_vec()[0], x) && is_float(result.as_vec()[1], y));
        // nothing refers to it any more: the collector releases `late`, never the handed-over objects
        gc.run(&[]);
        assert!(gc.objects.len() == 0);
        assert!(is_float(result.as_vec()[0], x));
        // the caller releases the result: list and first element (the second was the collector's and is gone)
        result.as_vec_mut()[1] = Object::null();
        result.free_recursive();
        kani::cover!(x == 1);
        std::mem::forget(gc);
    }

    /// maybe_trace adopts only heap values; trace/untrace of an unknown object is harmless
    #[kani::proof]
    #[kani::unwind(6)]
    fn c04_adopt_and_release() {
        let mut gc = GC::new();
        let (o, _) = (Object::int(kani::any::<i32>() as isize), 0);
        gc.maybe_trace(o);
        gc.maybe_trace(Object::null());
        gc.maybe_trace(Object::bool(kani::any()));
        assert!(gc.objects.len() == 0);
        let mut other = GC::new();
        let foreign = f(&mut other, 3);
        gc.untrace(foreign); // not ours: nothing happens
        assert!(gc.objects.len() == 0 && other.objects.len() == 1);
        other.untrace(foreign);
        gc.maybe_trace(foreign); // adopted: released by gc, exactly once
        assert!(gc.objects.len() == 1);
        gc.destroy();
        other.destroy();
        assert!(gc.objects.len() == 0 && other.objects.len() == 0);
        kani::cover!(true);
        std::mem::forget(gc);
        std::mem::forget(other);
    }

    // ------------------------------------------------------------------ small steps (the ones CBMC decides: measured)
    /// every heap constructor registers the new object with the collector it is given: exactly one entry, that object
    #[kani::proof]
    #[kani::unwind(5)]
    fn c03_constructors_register() {
        let mut gc = GC::new();
        let fl = f(&mut gc, kani::any());
        assert!(gc.objects.len() == 1 && std::ptr::eq(gc.objects[0].as_ptr(), fl.as_ptr()));
        let st = Object::string("ab", &mut gc);
        assert!(gc.objects.len() == 2 && std::ptr::eq(gc.objects[1].as_ptr(), st.as_ptr()));
        let ar = Object::array(vec![fl, Object::int(1)], &mut gc);
        assert!(gc.objects.len() == 3 && std::ptr::eq(gc.objects[2].as_ptr(), ar.as_ptr()));
        assert!(!std::ptr::eq(fl.as_ptr(), st.as_ptr()) && !std::ptr::eq(st.as_ptr(), ar.as_ptr()));
        kani::cover!(true);
        std::mem::forget(gc);
    }

    /// immediates are never adopted, heap values are, once
    #[kani::proof]
    #[kani::unwind(5)]
    fn c04_maybe_trace_only_heap() {
        let mut gc = GC::new();
        gc.maybe_trace(Object::int(kani::any::<i32>() as isize));
        gc.maybe_trace(Object::null());
        gc.maybe_trace(Object::bool(kani::any()));
        gc.maybe_trace(Object::function(kani::any::<u16>() as u32, kani::any()));
        assert!(gc.objects.len() == 0);
        let mut other = GC::new();
        let fl = f(&mut other, kani::any());
        gc.maybe_trace(fl);
        assert!(gc.objects.len() == 1 && std::ptr::eq(gc.objects[0].as_ptr(), fl.as_ptr()));
        kani::cover!(true);
        std::mem::forget(gc);
        std::mem::forget(other);
    }

    /// untrace takes exactly the given object out (the hand-over of a flat result); an unknown object changes nothing
    #[kani::proof]
    #[kani::unwind(5)]
    fn c04_untrace_flat() {
        let mut gc = GC::new();
        let a = f(&mut gc, kani::any());
        let mut other = GC::new();
        let foreign = f(&mut other, 1);
        gc.untrace(foreign);
        assert!(gc.objects.len() == 1 && std::ptr::eq(gc.objects[0].as_ptr(), a.as_ptr()));
        gc.untrace(a);
        assert!(gc.objects.len() == 0);
        gc.untrace(a);
        assert!(gc.objects.len() == 0 && other.objects.len() == 1);
        kani::cover!(true);
        std::mem::forget(gc);
        std::mem::forget(other);
    }

    /// a rooted float survives a collection untouched (one object, one root among immediates)
    #[kani::proof]
    #[kani::unwind(5)]
    fn c03_rooted_float_survives() {
        let mut gc = GC::new();
        let x: u64 = kani::any();
        let a = f(&mut gc, x);
        let roots = [a];
        gc.run(&[&roots]);
        assert!(gc.objects.len() == 1 && std::ptr::eq(gc.objects[0].as_ptr(), a.as_ptr()));
        assert!(is_float(a, x));
        kani::cover!(x == 5);
        std::mem::forget(gc);
    }

    /// an unrooted float is released by the collection, once (CBMC's memory model reports a double free)
    #[kani::proof]
    #[kani::unwind(5)]
    fn c04_unrooted_float_released() {
        let mut gc = GC::new();
        let a = f(&mut gc, kani::any());
        let roots = [Object::int(3)];
        gc.run(&[&roots]);
        assert!(gc.objects.len() == 0);
        gc.run(&[&roots]);
        gc.destroy();
        assert!(gc.objects.len() == 0);
        let _ = a;
        kani::cover!(true);
        std::mem::forget(gc);
    }
}
