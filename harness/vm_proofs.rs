
// ===== appended by /verif (overlay only): Kani single-step contracts for the REAL VM::run loop (C02, C05, C11, C12, C13, C10) =====
// One instruction at a time: `VM::next` is stubbed so that its FIRST call installs the arbitrary pre-state that
// run()'s prologue cannot express (bp) and then performs the real fetch, and its SECOND call returns Halt.
// The real dispatch arm of the fetched opcode therefore runs exactly once, from an arbitrary bounded machine state,
// and the harness (a child module of `vm`) reads the private post-state directly.
#[cfg(kani)]
pub(crate) mod __verif_k {
    use super::*;
    use crate::object::__verif_k::{arb_imm, fmt_stub, from_word, word};

    static mut CALLS: u8 = 0;
    static mut PRE_BP: u16 = 0;
    static mut PRE_OP: OpCode = OpCode::Halt;
    static mut PRE_STACK: [usize; 4] = [0; 4];
    static mut PRE_H: usize = 0;
    static mut PRE_FRAMES: [(usize, u16); 2] = [(0, 0); 2];
    static mut PRE_NFRAMES: usize = 0;

    impl VM {
        /// 1st call: install bp, consume the opcode byte and hand the (concrete) opcode of the contract to the real
        /// dispatch `match`; 2nd call: Halt.  The real fetch (`get_unchecked` + transmute) has its own harness: k_next_real.
        pub fn next_stub(&mut self) -> OpCode {
            unsafe {
                CALLS += 1;
                if CALLS == 1 {
                    // run()'s prologue has just reset ip/bp, emptied the stack and dropped all frames but the first:
                    // install the arbitrary pre-state of the contract (operand stack, extra call frames, bp)
                    let mut i = 0;
                    while i < 4 {
                        if i < PRE_H { self.stack.push(from_word(PRE_STACK[i])); }
                        i += 1;
                    }
                    let mut j = 0;
                    while j < 2 {
                        if j < PRE_NFRAMES { self.frames.push(mk_frame(PRE_FRAMES[j].0, PRE_FRAMES[j].1)); }
                        j += 1;
                    }
                    self.bp = PRE_BP;
                    self.ip += 1;
                    PRE_OP
                } else {
                    OpCode::Halt
                }
            }
        }
    }

    // --- collector stubs: contracts that are not about collection let objects leak in the model.
    // gc_run_stub RECORDS the root set handed to the collector (tied to C03/C04: which slices are roots).
    static mut GC_RUNS: u8 = 0;
    static mut ROOTS: [(usize, usize); 4] = [(0, 0); 4];
    static mut NROOTS: usize = 0;
    static mut LAST_ROOT: [usize; 2] = [0; 2];
    static mut LAST_ROOT_LEN: usize = 0;
    pub fn gc_run_stub(_gc: &mut GC, roots: &[&[Object]]) {
        unsafe {
            GC_RUNS += 1;
            NROOTS = roots.len();
            let mut i = 0;
            while i < roots.len() && i < 4 {
                ROOTS[i] = (roots[i].as_ptr() as usize, roots[i].len());
                i += 1;
            }
            if roots.len() == 4 {
                LAST_ROOT_LEN = roots[3].len();
                if roots[3].len() >= 1 {
                    LAST_ROOT[0] = roots[3][0].as_ptr() as usize | (roots[3][0].tag() as usize);
                }
                if roots[3].len() >= 2 {
                    LAST_ROOT[1] = roots[3][1].as_ptr() as usize | (roots[3][1].tag() as usize);
                }
            }
        }
    }
    pub fn gc_obj_stub(_gc: &mut GC, _o: Object) {}
    pub fn gc_unit_stub(_gc: &mut GC) {}
    // recorders for the two other collector entry points of VM::run (C03/C04): which values are handed to the collector
    // when a run starts (the program's constants) and which value is taken out of it when a run ends (the result)
    static mut ADOPTED: u8 = 0;
    static mut ADOPTED_WORDS: [usize; 3] = [0; 3];
    static mut UNTRACED: u8 = 0;
    static mut UNTRACED_WORD: usize = 0;
    pub fn gc_adopt_stub(_gc: &mut GC, o: Object) {
        unsafe {
            if (ADOPTED as usize) < 3 { ADOPTED_WORDS[ADOPTED as usize] = word(o); }
            ADOPTED += 1;
        }
    }
    pub fn gc_untrace_stub(_gc: &mut GC, o: Object) {
        unsafe {
            UNTRACED += 1;
            UNTRACED_WORD = word(o);
        }
    }

    const H: usize = 4; // stack window of the contracts

    /// a call frame with the given return address and base pointer; written so that it keeps compiling if the WIDTH of the
    /// fields changes (a narrowed field then shows as a failed contract, not as an overlay that does not build)
    fn mk_frame(ip: usize, bp: u16) -> Frame {
        let mut f = Frame::new(0 as _, bp);
        f.ip = ip as _;
        f
    }

    /// a fresh VM whose stack holds `h` arbitrary immediates (h concrete per harness, contents symbolic)
    fn mk_vm(h: usize) -> (VM, [Object; H], usize) {
        let vm = VM::new();
        let mut pre = [Object::null(); H];
        let mut i = 0;
        while i < H {
            if i < h {
                let o = arb_imm().0;
                pre[i] = o;
                unsafe { PRE_STACK[i] = word(o); }
            }
            i += 1;
        }
        unsafe { PRE_H = h; PRE_NFRAMES = 0; }
        (vm, pre, h)
    }

    fn same(a: Object, b: Object) -> bool {
        word(a) == word(b)
    }

    /// slots [0, n) of the stack are exactly what they were
    fn below_untouched(vm: &VM, pre: &[Object; H], n: usize) -> bool {
        let mut i = 0;
        let mut ok = true;
        while i < H {
            if i < n {
                ok = ok && same(vm.stack[i], pre[i]);
            }
            i += 1;
        }
        ok
    }

    fn step(vm: &mut VM, instructions: Vec<u8>, constants: Vec<Object>, bp: u16) -> Result<Object, Error> {
        unsafe {
            CALLS = 0;
            PRE_BP = bp;
            GC_RUNS = 0;
        }
        vm.run(Bytecode { constants, instructions })
    }
    fn set_op(op: OpCode) -> u8 {
        unsafe { PRE_OP = op; }
        op as u8
    }

    fn kind(e: &Error) -> u8 {
        match e {
            Error::TypeError(_) => 0,
            Error::SyntaxError(_) => 1,
            Error::ReferenceError(_) => 2,
            Error::IndexError(_) => 3,
            Error::ArgumentError(_) => 4,
        }
    }

    macro_rules! contract {
        ($(#[$m:meta])* fn $name:ident() $body:block) => {
            #[kani::proof]
            #[kani::stub(std::fmt::format, fmt_stub)]
            #[kani::stub(crate::vm::VM::next, crate::vm::VM::next_stub)]
            #[kani::stub(crate::gc::GC::trace, gc_obj_stub)]
            #[kani::stub(crate::gc::GC::maybe_trace, gc_adopt_stub)]
            #[kani::stub(crate::gc::GC::untrace, gc_untrace_stub)]
            #[kani::stub(crate::gc::GC::run, gc_run_stub)]
            #[kani::stub(crate::gc::GC::destroy, gc_unit_stub)]
            $(#[$m])*
            fn $name() $body
        };
    }

    // ------------------------------------------------------------------ fetch: the real VM::next and operand readers
    #[kani::proof]
    fn k_next_real() {
        let mut vm = VM::new();
        let b: u8 = kani::any();
        kani::assume(b <= OpCode::Halt as u8); // what the compiler emits: OpCode as u8
        let pad: u8 = kani::any();
        vm.instructions = vec![pad, b, 7, 9];
        vm.ip = 1;
        let op = vm.next();
        assert!(op as u8 == b);
        assert!(vm.ip == 2);
        let x = vm.read_u8();
        assert!(x == 7 && vm.ip == 3);
        vm.ip = 2;
        let y = vm.read_u16();
        assert!(y == 7 | (9 << 8) && vm.ip == 4);
        kani::cover!(b == OpCode::Halt as u8);
        kani::cover!(b == 0);
        std::mem::forget(vm);
    }

    // ------------------------------------------------------------------ Null / True / False / Pop / Halt
    macro_rules! push_contract {
        ($name:ident, $op:expr, $want:expr) => {
            contract! { fn $name() {
                let (mut vm, pre, h) = mk_vm(2);
                let r = step(&mut vm, vec![set_op($op), OpCode::Halt as u8], vec![], 0);
                assert!(r.is_ok());
                assert!(vm.stack.len() == h + 1);
                assert!(same(vm.stack[h], $want));
                assert!(below_untouched(&vm, &pre, h));
                assert!(vm.ip == 1 && vm.frames.len() == 1);
                if let Ok(v) = r { assert!(same(v, Object::null())); }
                kani::cover!(pre[0].tag() == Type::Int);
                std::mem::forget(vm);
            }}
        };
    }
    push_contract!(k_push_null, OpCode::Null, Object::null());
    push_contract!(k_push_true, OpCode::True, Object::bool(true));
    push_contract!(k_push_false, OpCode::False, Object::bool(false));

    contract! { fn k_pop_sets_result() {
        let (mut vm, pre, h) = mk_vm(3);
        let r = step(&mut vm, vec![set_op(OpCode::Pop), OpCode::Halt as u8], vec![], 0);
        assert!(vm.stack.len() == h - 1);
        assert!(below_untouched(&vm, &pre, h - 1));
        match r { Ok(v) => assert!(same(v, pre[h - 1])), Err(_) => assert!(false) }
        assert!(vm.ip == 1);
        kani::cover!(pre[2].tag() == Type::Function);
        std::mem::forget(vm);
    }}

    // C02/C12: a call remembers where the caller has to resume, for ANY position in the code (jump operands are 16-bit,
    // code positions are not: straight-line code may run past 64 KiB), and the callee starts at the given entry
    #[kani::proof]
    fn k_frame_roundtrip_any_position() {
        let mut vm = VM::new();
        let resume: usize = kani::any();
        let entry: u32 = kani::any();
        let base: u16 = kani::any();
        kani::assume(base <= 2);
        vm.stack.push(Object::null());
        vm.stack.push(Object::null());
        vm.ip = resume;
        vm.bp = 0;
        vm.pushframe(entry, base);
        assert!(vm.ip == entry as usize && vm.bp == base && vm.frames.len() == 2);
        vm.ip = kani::any();
        vm.popframe();
        assert!(vm.ip == resume);
        assert!(vm.bp == 0 && vm.frames.len() == 1 && vm.stack.len() == base as usize);
        kani::cover!(resume > 65535);
        kani::cover!(entry > 65535);
        std::mem::forget(vm);
    }

    // C03/C04: the run's result is taken out of the collector exactly once, at Halt, and it is the value returned;
    // an error exit hands nothing over (everything stays with the machine's collector and is released with it)
    contract! { fn k_halt_hands_over_result() {
        let (mut vm, pre, h) = mk_vm(2);
        unsafe { UNTRACED = 0; UNTRACED_WORD = 0; }
        let r = step(&mut vm, vec![set_op(OpCode::Pop), OpCode::Halt as u8], vec![], 0);
        match r { Ok(v) => assert!(same(v, pre[h - 1])), Err(_) => assert!(false) }
        unsafe {
            assert!(UNTRACED == 1);
            assert!(UNTRACED_WORD == word(pre[h - 1]));
            assert!(GC_RUNS == 0);
        }
        kani::cover!(pre[1].tag() == Type::Int);
        std::mem::forget(vm);
    }}

    contract! { fn k_error_exit_hands_over_nothing() {
        let (mut vm, pre, _h) = mk_vm(2);
        unsafe { UNTRACED = 0; }
        // Not on a non-boolean: the run ends with an error at this instruction
        kani::assume(pre[1].tag() != Type::Bool);
        let r = step(&mut vm, vec![set_op(OpCode::Not), OpCode::Halt as u8], vec![], 0);
        assert!(r.is_err());
        unsafe { assert!(UNTRACED == 0 && GC_RUNS == 0); }
        kani::cover!(pre[1].tag() == Type::Int);
        std::mem::forget(vm);
    }}

    // C03/C04: every constant of the program is offered to the collector when the run starts, once, in order
    // (GC::maybe_trace keeps the heap-allocated ones: gc.rs), so literals live as long as the machine and are released with it
    contract! { fn k_prologue_adopts_constants() {
        let mut vm = VM::new();
        let c0 = arb_imm().0;
        let c1 = crate::object::Object::float(1.5, &mut GC::new());
        let c2 = <Object as crate::object::FromString<&str>>::string("ab", &mut GC::new());
        unsafe { CALLS = 1; PRE_H = 0; PRE_NFRAMES = 0; ADOPTED = 0; UNTRACED = 0; }
        let r = vm.run(Bytecode { constants: vec![c0, c1, c2], instructions: vec![OpCode::Halt as u8] });
        assert!(r.is_ok());
        unsafe {
            assert!(ADOPTED == 3);
            assert!(ADOPTED_WORDS[0] == word(c0) && ADOPTED_WORDS[1] == word(c1) && ADOPTED_WORDS[2] == word(c2));
            assert!(UNTRACED == 1 && UNTRACED_WORD == word(Object::null()));
        }
        kani::cover!(c0.tag() == Type::Int);
        std::mem::forget(vm);
    }}

    contract! { fn k_halt_and_prologue() {
        // run() from an arbitrary RETAINED state (C17): what is reset, what is kept
        let mut vm = VM::new();
        vm.stack.push(arb_imm().0);
        vm.stack.push(arb_imm().0);
        vm.frames.push(mk_frame(kani::any::<u16>() as usize, kani::any()));
        vm.ip = kani::any();
        vm.bp = kani::any();
        vm.frames[0].ip = kani::any();
        vm.frames[0].base_pointer = kani::any();
        let g = arb_imm().0;
        vm.globals.push(g);
        unsafe { CALLS = 1; PRE_H = 0; PRE_NFRAMES = 0; } // the first fetched instruction is already the Halt
        let r = vm.run(Bytecode { constants: vec![], instructions: vec![OpCode::Halt as u8] });
        match r { Ok(v) => assert!(same(v, Object::null())), Err(_) => assert!(false) }
        assert!(vm.ip == 0 && vm.bp == 0);
        // leftovers of an earlier (failed) run are gone: empty operand stack, a single frame
        assert!(vm.stack.len() == 0);
        assert!(vm.frames.len() == 1 && vm.frames[0].ip as usize == 0 && vm.frames[0].base_pointer == 0);
        // globals are kept
        assert!(vm.globals.len() == 1 && same(vm.globals[0], g));
        kani::cover!(g.tag() == Type::Int);
        std::mem::forget(vm);
    }}

    // ------------------------------------------------------------------ Const
    contract! { fn k_const() {
        let (mut vm, pre, h) = mk_vm(2);
        let n: usize = kani::any();
        kani::assume(n >= 1 && n <= 3);
        let mut cs = Vec::with_capacity(3);
        let c0 = arb_imm().0;
        let c1 = crate::object::Object::float(1.5, &mut GC::new());
        let c2 = arb_imm().0;
        cs.push(c0);
        if n >= 2 { cs.push(c1); }
        if n >= 3 { cs.push(c2); }
        let idx: u16 = kani::any();
        kani::assume((idx as usize) < n); // pre_op: constant index in range (C02, shown by nlsym for emitted code)
        let r = step(&mut vm, vec![set_op(OpCode::Const), (idx & 0xFF) as u8, (idx >> 8) as u8, OpCode::Halt as u8], cs, 0);
        assert!(r.is_ok());
        assert!(vm.stack.len() == h + 1 && below_untouched(&vm, &pre, h));
        let want = if idx == 0 { c0 } else if idx == 1 { c1 } else { c2 };
        assert!(same(vm.stack[h], want));
        assert!(vm.ip == 3);
        kani::cover!(idx == 2);
        kani::cover!(idx == 1);
        std::mem::forget(vm);
    }}

    contract! { #[kani::unwind(6)] fn k_const_string_is_copied() {
        let (mut vm, pre, h) = mk_vm(1);
        let c = crate::object::__verif_k::mk_str(3);
        let r = step(&mut vm, vec![set_op(OpCode::Const), 0, 0, OpCode::Halt as u8], vec![c], 0);
        assert!(r.is_ok());
        assert!(vm.stack.len() == h + 1 && below_untouched(&vm, &pre, h));
        let top = vm.stack[h];
        assert!(top.tag() == Type::String);
        assert!(!same(top, c)); // a fresh object: strings are mutable in place
        let s = top.as_str();
        assert!(s.len() == 2 && s.as_bytes()[0] == b'a' && s.as_bytes()[1] == b'b');
        kani::cover!(h == 1);
        std::mem::forget(vm);
    }}

    // ------------------------------------------------------------------ globals
    contract! { fn k_set_global_existing() {
        // two globals exist; any of them is overwritten, the other is untouched
        let (mut vm, pre, h) = mk_vm(2);
        let g0 = arb_imm().0;
        let g1 = arb_imm().0;
        vm.globals.push(g0);
        vm.globals.push(g1);
        let idx: u16 = kani::any();
        kani::assume(idx < 2);
        let r = step(&mut vm, vec![set_op(OpCode::SetGlobal), idx as u8, 0, OpCode::Halt as u8], vec![], 0);
        assert!(r.is_ok());
        assert!(vm.stack.len() == h - 1 && below_untouched(&vm, &pre, h - 1));
        assert!(vm.globals.len() == 2);
        assert!(same(vm.globals[idx as usize], pre[h - 1]));
        assert!(same(vm.globals[1 - idx as usize], if idx == 0 { g1 } else { g0 }));
        assert!(vm.ip == 3);
        kani::cover!(idx == 1);
        kani::cover!(idx == 0);
        std::mem::forget(vm);
    }}

    contract! { #[kani::unwind(6)] fn k_set_global_grows() {
        // one global exists, slot 3 is assigned: the vector grows, slots in between are null
        let (mut vm, pre, h) = mk_vm(2);
        let g0 = arb_imm().0;
        vm.globals.push(g0);
        let r = step(&mut vm, vec![set_op(OpCode::SetGlobal), 3, 0, OpCode::Halt as u8], vec![], 0);
        assert!(r.is_ok());
        assert!(vm.stack.len() == h - 1 && below_untouched(&vm, &pre, h - 1));
        assert!(vm.globals.len() == 4);
        assert!(same(vm.globals[0], g0) && same(vm.globals[1], Object::null()) && same(vm.globals[2], Object::null()));
        assert!(same(vm.globals[3], pre[h - 1]));
        kani::cover!(pre[h - 1].tag() == Type::Int);
        std::mem::forget(vm);
    }}

    contract! { fn k_get_global() {
        let (mut vm, pre, h) = mk_vm(1);
        let g: usize = kani::any();
        kani::assume(g <= 2);
        let g0 = arb_imm().0;
        let g1 = arb_imm().0;
        if g >= 1 { vm.globals.push(g0); }
        if g >= 2 { vm.globals.push(g1); }
        let idx: u16 = kani::any(); // ANY index: reading a global that was never assigned is an error, not a panic
        let r = step(&mut vm, vec![set_op(OpCode::GetGlobal), (idx & 0xFF) as u8, (idx >> 8) as u8, OpCode::Halt as u8], vec![], 0);
        if (idx as usize) < g {
            assert!(r.is_ok());
            assert!(vm.stack.len() == h + 1 && below_untouched(&vm, &pre, h));
            assert!(same(vm.stack[h], if idx == 0 { g0 } else { g1 }));
            assert!(vm.ip == 3);
        } else {
            match r { Err(e) => assert!(kind(&e) == 2), Ok(_) => assert!(false) }
            assert!(vm.stack.len() == h && below_untouched(&vm, &pre, h));
        }
        assert!(vm.globals.len() == g);
        kani::cover!((idx as usize) >= g);
        kani::cover!(idx == 1 && g == 2);
        std::mem::forget(vm);
    }}

    // ------------------------------------------------------------------ locals
    contract! { fn k_get_local() {
        let (mut vm, pre, h) = mk_vm(4);
        let bp: u16 = kani::any();
        let idx: u16 = kani::any();
        kani::assume((bp as usize) <= h && (bp as usize + idx as usize) < h); // pre_op (C02)
        let r = step(&mut vm, vec![set_op(OpCode::GetLocal), (idx & 0xFF) as u8, (idx >> 8) as u8, OpCode::Halt as u8], vec![], bp);
        assert!(r.is_ok());
        assert!(vm.stack.len() == h + 1 && below_untouched(&vm, &pre, h));
        assert!(same(vm.stack[h], pre[bp as usize + idx as usize]));
        assert!(vm.ip == 3 && vm.bp == bp);
        kani::cover!(bp == 2 && idx == 1);
        kani::cover!(bp == 0 && idx == 0);
        std::mem::forget(vm);
    }}

    contract! { fn k_set_local() {
        let (mut vm, pre, h) = mk_vm(4);
        let bp: u16 = kani::any();
        let idx: u16 = kani::any();
        kani::assume((bp as usize) <= h && (bp as usize + idx as usize) < h - 1); // pre_op: the slot is below the popped value
        let r = step(&mut vm, vec![set_op(OpCode::SetLocal), (idx & 0xFF) as u8, (idx >> 8) as u8, OpCode::Halt as u8], vec![], bp);
        assert!(r.is_ok());
        assert!(vm.stack.len() == h - 1);
        let slot = bp as usize + idx as usize;
        let mut i = 0;
        while i < H {
            if i < h - 1 {
                if i == slot { assert!(same(vm.stack[i], pre[h - 1])); } else { assert!(same(vm.stack[i], pre[i])); }
            }
            i += 1;
        }
        assert!(vm.ip == 3 && vm.bp == bp);
        kani::cover!(slot == 2);
        kani::cover!(slot == 0);
        std::mem::forget(vm);
    }}

    /// get_local / set_local near the 16-bit limit: base pointer and slot index are 16-bit, their SUM is not.
    /// A stack that large (70 000 slots) makes CBMC abort, so the sum is probed from the outside: with a 2-slot stack every
    /// access with bp + idx >= 2 - sums beyond 65 535 included - must end in the bounds-check panic of `self.stack[..]` and
    /// in nothing else.  If the slot were computed in 16 bits, Kani would report an arithmetic overflow instead (or, for
    /// wrapped sums < 2, no failure at all).  The runner accepts exactly the failed check "index out of bounds" (expect_only).
    #[kani::proof]
    fn k_local_slot_beyond_stack() {
        let mut vm = VM::new();
        vm.stack.push(Object::null());
        vm.stack.push(Object::null());
        let bp: u16 = kani::any();
        let idx: u16 = kani::any();
        kani::assume((bp as usize) + (idx as usize) >= 2);
        vm.bp = bp;
        if kani::any() {
            let _ = vm.get_local(idx);
        } else {
            vm.set_local(idx, Object::null());
        }
        // not reached: both accesses are beyond the stack
        assert!(false, "an access beyond the stack returned a value");
    }

    // ------------------------------------------------------------------ jumps
    contract! { fn k_jump() {
        let (mut vm, pre, h) = mk_vm(1);
        let t: u16 = kani::any();
        let r = step(&mut vm, vec![set_op(OpCode::Jump), (t & 0xFF) as u8, (t >> 8) as u8, OpCode::Halt as u8], vec![], 0);
        assert!(r.is_ok());
        assert!(vm.ip == t as usize);
        assert!(vm.stack.len() == h && below_untouched(&vm, &pre, h));
        kani::cover!(t == 0xFFFF);
        std::mem::forget(vm);
    }}

    contract! { fn k_jump_if_false() {
        let (mut vm, pre, h) = mk_vm(2);
        let t: u16 = kani::any();
        let r = step(&mut vm, vec![set_op(OpCode::JumpIfFalse), (t & 0xFF) as u8, (t >> 8) as u8, OpCode::Halt as u8], vec![], 0);
        let c = pre[h - 1];
        if c.tag() != Type::Bool {
            match r { Err(e) => assert!(kind(&e) == 0), Ok(_) => assert!(false) }
        } else {
            assert!(r.is_ok());
            if c.as_bool() { assert!(vm.ip == 3); } else { assert!(vm.ip == t as usize); }
        }
        assert!(vm.stack.len() == h - 1 && below_untouched(&vm, &pre, h - 1));
        kani::cover!(c.tag() == Type::Bool && c.as_bool());
        kani::cover!(c.tag() == Type::Bool && !c.as_bool() && t == 1000);
        kani::cover!(c.tag() == Type::Int);
        std::mem::forget(vm);
    }}

    // ------------------------------------------------------------------ binary operators (operand order, stack discipline; kernels: object.rs harnesses)
    fn apply(k: u8, a: Object, b: Object, gc: &mut GC) -> Result<Object, Error> {
        crate::object::__verif_k::apply(k, a, b, gc)
    }
    fn op_of(k: u8) -> OpCode {
        match k {
            0 => OpCode::Add, 1 => OpCode::Subtract, 2 => OpCode::Multiply, 3 => OpCode::Divide, 4 => OpCode::Modulo,
            5 => OpCode::Lt, 6 => OpCode::Lte, 7 => OpCode::Gt, 8 => OpCode::Gte, 9 => OpCode::Eq, 10 => OpCode::Neq,
            11 => OpCode::And, _ => OpCode::Or,
        }
    }
    fn fused_of(k: u8) -> OpCode {
        match k {
            0 => OpCode::AddLocalConst, 1 => OpCode::SubtractLocalConst, 2 => OpCode::MultiplyLocalConst,
            3 => OpCode::DivideLocalConst, 4 => OpCode::ModuloLocalConst, 5 => OpCode::LtLocalConst,
            6 => OpCode::LteLocalConst, 7 => OpCode::GtLocalConst, 8 => OpCode::GteLocalConst,
            9 => OpCode::EqLocalConst, _ => OpCode::NeqLocalConst,
        }
    }

    /// result of a step agrees with the kernel applied to (left, right): same value / same error kind
    fn agrees(r: &Result<Object, Error>, top: Option<Object>, want: &Result<Object, Error>) -> bool {
        match (r, want) {
            (Ok(_), Ok(w)) => match top { Some(t) => same(t, *w), None => false },
            (Err(a), Err(b)) => kind(a) == kind(b),
            _ => false,
        }
    }

    macro_rules! binop_contract {
        ($name:ident, $k:expr) => {
            contract! { fn $name() {
                let (mut vm, pre, h) = mk_vm(3);
                let k: u8 = $k;
                let (l, r_) = (pre[h - 2], pre[h - 1]);
                let mut g = std::mem::ManuallyDrop::new(GC::new());
                let want = apply(k, l, r_, &mut g);
                let r = step(&mut vm, vec![set_op(op_of(k)), OpCode::Halt as u8], vec![], 0);
                match &want {
                    Ok(_) => {
                        assert!(vm.stack.len() == h - 1);
                        assert!(agrees(&r, Some(vm.stack[h - 2]), &want));
                    }
                    Err(_) => {
                        assert!(agrees(&r, None, &want));
                        assert!(vm.stack.len() == h - 2);
                    }
                }
                assert!(below_untouched(&vm, &pre, h - 2));
                assert!(vm.ip == 1);
                kani::cover!(want.is_ok());
                kani::cover!(want.is_err());
                std::mem::forget(vm);
            }}
        };
    }
    binop_contract!(k_binop_add, 0);
    binop_contract!(k_binop_sub, 1);
    binop_contract!(k_binop_lt, 5);
    binop_contract!(k_binop_lte, 6);
    binop_contract!(k_binop_gt, 7);
    binop_contract!(k_binop_gte, 8);
    binop_contract!(k_binop_eq, 9);
    binop_contract!(k_binop_neq, 10);
    binop_contract!(k_binop_and, 11);
    binop_contract!(k_binop_or, 12);

    macro_rules! fused_contract {
        ($name:ident, $k:expr) => {
            contract! { fn $name() {
                let (mut vm, pre, h) = mk_vm(3);
                let k: u8 = $k;
                let bp: u16 = kani::any();
                let li: u16 = kani::any();
                kani::assume((bp as usize) <= h && (bp as usize + li as usize) < h); // pre_op (C02)
                let c0 = arb_imm().0;
                let c1 = arb_imm().0;
                let ci: u16 = kani::any();
                kani::assume(ci < 2);
                let (l, r_) = (pre[bp as usize + li as usize], if ci == 0 { c0 } else { c1 });
                let mut g = std::mem::ManuallyDrop::new(GC::new());
                let want = apply(k, l, r_, &mut g);
                let r = step(&mut vm, vec![set_op(fused_of(k)), (li & 0xFF) as u8, (li >> 8) as u8, ci as u8, 0, OpCode::Halt as u8], vec![c0, c1], bp);
                match &want {
                    Ok(_) => {
                        assert!(vm.stack.len() == h + 1);
                        assert!(agrees(&r, Some(vm.stack[h]), &want));
                        assert!(vm.ip == 5);
                    }
                    Err(_) => {
                        assert!(agrees(&r, None, &want));
                        assert!(vm.stack.len() == h);
                    }
                }
                assert!(below_untouched(&vm, &pre, h)); // the variable is read, never popped
                kani::cover!(want.is_ok() && l.tag() == Type::Int && l.as_int() < r_.as_int());
                kani::cover!(want.is_err());
                kani::cover!(bp == 1 && li == 1 && ci == 1);
                std::mem::forget(vm);
            }}
        };
    }
    fused_contract!(k_fused_add, 0);
    fused_contract!(k_fused_sub, 1);
    fused_contract!(k_fused_lt, 5);
    fused_contract!(k_fused_lte, 6);
    fused_contract!(k_fused_gt, 7);
    fused_contract!(k_fused_gte, 8);
    fused_contract!(k_fused_eq, 9);
    fused_contract!(k_fused_neq, 10);

    // multiply / divide / modulo: the kernels are bit-blasting cost centres (see object.rs harnesses c06_int_mul*/div*/rem*),
    // so these contracts stub the kernel with a recorder and check the plumbing only: operand ORDER, pops, push, error propagation.
    static mut KARGS: [usize; 2] = [0; 2];
    fn kernel_stub(l: Object, r: Object, _gc: &mut GC) -> Result<Object, Error> {
        unsafe {
            KARGS[0] = word(l);
            KARGS[1] = word(r);
            if BI_FAIL { Err(Error::TypeError(RStringAlias::new())) } else { Ok(from_word(BI_RESULT)) }
        }
    }

    macro_rules! binop_plumbing_contract {
        ($name:ident, $k:expr, $kernel:path) => {
            #[kani::proof]
            #[kani::stub(std::fmt::format, fmt_stub)]
            #[kani::stub(crate::vm::VM::next, crate::vm::VM::next_stub)]
            #[kani::stub(crate::gc::GC::trace, gc_obj_stub)]
            #[kani::stub(crate::gc::GC::maybe_trace, gc_obj_stub)]
            #[kani::stub(crate::gc::GC::untrace, gc_obj_stub)]
            #[kani::stub(crate::gc::GC::destroy, gc_unit_stub)]
            #[kani::stub($kernel, kernel_stub)]
            fn $name() {
                let (mut vm, pre, h) = mk_vm(3);
                let res = arb_imm().0;
                let fail: bool = kani::any();
                unsafe { BI_RESULT = word(res); BI_FAIL = fail; }
                let r = step(&mut vm, vec![set_op(op_of($k)), OpCode::Halt as u8], vec![], 0);
                unsafe {
                    assert!(KARGS[0] == word(pre[h - 2])); // left operand is the one pushed first
                    assert!(KARGS[1] == word(pre[h - 1]));
                }
                if fail {
                    match r { Err(e) => assert!(kind(&e) == 0), Ok(_) => assert!(false) }
                    assert!(vm.stack.len() == h - 2);
                } else {
                    assert!(r.is_ok() && vm.stack.len() == h - 1 && same(vm.stack[h - 2], res));
                    assert!(vm.ip == 1);
                }
                assert!(below_untouched(&vm, &pre, h - 2));
                kani::cover!(fail);
                kani::cover!(!fail);
                std::mem::forget(vm);
            }
        };
    }
    binop_plumbing_contract!(k_binop_mul, 2, crate::object::Object::mul);
    binop_plumbing_contract!(k_binop_div, 3, crate::object::Object::div);
    binop_plumbing_contract!(k_binop_rem, 4, crate::object::Object::rem);

    macro_rules! fused_plumbing_contract {
        ($name:ident, $k:expr, $kernel:path) => {
            #[kani::proof]
            #[kani::stub(std::fmt::format, fmt_stub)]
            #[kani::stub(crate::vm::VM::next, crate::vm::VM::next_stub)]
            #[kani::stub(crate::gc::GC::trace, gc_obj_stub)]
            #[kani::stub(crate::gc::GC::maybe_trace, gc_obj_stub)]
            #[kani::stub(crate::gc::GC::untrace, gc_obj_stub)]
            #[kani::stub(crate::gc::GC::destroy, gc_unit_stub)]
            #[kani::stub($kernel, kernel_stub)]
            fn $name() {
                let (mut vm, pre, h) = mk_vm(3);
                let bp: u16 = kani::any();
                let li: u16 = kani::any();
                kani::assume((bp as usize) <= h && (bp as usize + li as usize) < h); // pre_op (C02)
                let c0 = arb_imm().0;
                let c1 = arb_imm().0;
                let ci: u16 = kani::any();
                kani::assume(ci < 2);
                let res = arb_imm().0;
                let fail: bool = kani::any();
                unsafe { BI_RESULT = word(res); BI_FAIL = fail; }
                let r = step(&mut vm, vec![set_op(fused_of($k)), (li & 0xFF) as u8, (li >> 8) as u8, ci as u8, 0, OpCode::Halt as u8], vec![c0, c1], bp);
                unsafe {
                    assert!(KARGS[0] == word(pre[bp as usize + li as usize])); // variable op constant, in this order
                    assert!(KARGS[1] == word(if ci == 0 { c0 } else { c1 }));
                }
                if fail {
                    match r { Err(e) => assert!(kind(&e) == 0), Ok(_) => assert!(false) }
                    assert!(vm.stack.len() == h);
                } else {
                    assert!(r.is_ok() && vm.stack.len() == h + 1 && same(vm.stack[h], res));
                    assert!(vm.ip == 5);
                }
                assert!(below_untouched(&vm, &pre, h));
                kani::cover!(fail);
                kani::cover!(!fail && bp == 1 && li == 1 && ci == 1);
                std::mem::forget(vm);
            }
        };
    }
    fused_plumbing_contract!(k_fused_mul, 2, crate::object::Object::mul);
    fused_plumbing_contract!(k_fused_div, 3, crate::object::Object::div);
    fused_plumbing_contract!(k_fused_rem, 4, crate::object::Object::rem);

    // ------------------------------------------------------------------ Not / Negate
    contract! { fn k_not() {
        let (mut vm, pre, h) = mk_vm(2);
        let x = pre[h - 1];
        let r = step(&mut vm, vec![set_op(OpCode::Not), OpCode::Halt as u8], vec![], 0);
        if x.tag() == Type::Bool {
            assert!(r.is_ok() && vm.stack.len() == h);
            assert!(same(vm.stack[h - 1], Object::bool(!x.as_bool())));
        } else {
            match r { Err(e) => assert!(kind(&e) == 0), Ok(_) => assert!(false) }
            assert!(vm.stack.len() == h - 1);
        }
        assert!(below_untouched(&vm, &pre, h - 1));
        kani::cover!(x.tag() == Type::Bool && x.as_bool());
        kani::cover!(x.tag() == Type::Null);
        std::mem::forget(vm);
    }}

    contract! { fn k_negate() {
        let (mut vm, pre, h) = mk_vm(2);
        let x = pre[h - 1];
        let r = step(&mut vm, vec![set_op(OpCode::Negate), OpCode::Halt as u8], vec![], 0);
        if x.tag() == Type::Int {
            let v = x.as_int();
            if v == crate::object::MIN_INT {
                assert!(r.is_err());
            } else {
                assert!(r.is_ok() && vm.stack.len() == h);
                assert!(vm.stack[h - 1].tag() == Type::Int && vm.stack[h - 1].as_int() == -v);
            }
        } else {
            match r { Err(e) => assert!(kind(&e) == 0), Ok(_) => assert!(false) } // immediates other than int
        }
        assert!(below_untouched(&vm, &pre, h - 1));
        kani::cover!(x.tag() == Type::Int && x.as_int() == crate::object::MIN_INT);
        kani::cover!(x.tag() == Type::Int && x.as_int() > 0);
        kani::cover!(x.tag() == Type::Bool);
        std::mem::forget(vm);
    }}

    contract! { fn k_negate_float() {
        let mut vm = VM::new();
        let bits: u64 = kani::any();
        let f = crate::object::Object::float(f64::from_bits(bits), &mut GC::new());
        unsafe { PRE_STACK[0] = word(f); PRE_H = 1; PRE_NFRAMES = 0; }
        let r = step(&mut vm, vec![set_op(OpCode::Negate), OpCode::Halt as u8], vec![], 0);
        assert!(r.is_ok() && vm.stack.len() == 1);
        let t = vm.stack[0];
        assert!(t.tag() == Type::Float);
        let got = t.as_f64();
        let want = -f64::from_bits(bits);
        assert!((got.is_nan() && want.is_nan()) || got.to_bits() == want.to_bits());
        kani::cover!(bits == 0);
        std::mem::forget(vm);
    }}

    // ------------------------------------------------------------------ Call / Return / ReturnValue
    contract! { #[kani::unwind(6)] fn k_call() {
        let (mut vm, pre, h) = mk_vm(4);
        let n: u8 = kani::any();
        kani::assume((n as usize) + 1 <= h && n <= 2); // pre_op: callee and its arguments are on the stack
        let f = pre[h - 1];
        let ip0: usize = 2;
        if f.tag() == Type::Function && f.function_arity() == n {
            // bound: at most 3 locals besides the parameters; num_locals >= arity holds for every function value the compiler builds
            let [_, nl] = f.as_function();
            kani::assume(nl >= n as u32 && nl <= n as u32 + 3);
        }
        let r = step(&mut vm, vec![set_op(OpCode::Call), n, OpCode::Halt as u8], vec![], 0);
        let base = h - 1 - n as usize;
        if f.tag() != Type::Function {
            match r { Err(e) => assert!(kind(&e) == 0), Ok(_) => assert!(false) }
            assert!(vm.frames.len() == 1);
        } else if f.function_arity() != n {
            match r { Err(e) => assert!(kind(&e) == 4), Ok(_) => assert!(false) }
            assert!(vm.frames.len() == 1);
        } else {
            let [fip, nl] = f.as_function();
            assert!(r.is_ok());
            assert!(vm.frames.len() == 2);
            assert!(vm.frames[0].ip as usize == ip0); // caller resumes after the operand
            assert!(vm.frames[1].ip as usize == fip as usize && vm.frames[1].base_pointer as usize == base);
            assert!(vm.ip == fip as usize && vm.bp as usize == base);
            assert!(vm.stack.len() == base + nl as usize);
            // arguments are the first locals, the remaining locals start as null, everything below is untouched
            assert!(below_untouched(&vm, &pre, h - 1));
            let mut i = h - 1;
            while i < base + nl as usize {
                assert!(same(vm.stack[i], Object::null()));
                i += 1;
            }
            kani::cover!(n == 2 && nl == 4);
            kani::cover!(n == 0 && nl == 0);
        }
        kani::cover!(f.tag() == Type::Function && f.function_arity() != n);
        kani::cover!(f.tag() == Type::Int);
        std::mem::forget(vm);
    }}

    macro_rules! return_contract {
        ($name:ident, $op:expr, $with_value:expr) => {
            contract! { fn $name() {
                let (mut vm, pre, h) = mk_vm(4);
                // an activation: caller frame (frames[0], reset by the prologue) and callee frame with symbolic base
                let cbp: u16 = kani::any();
                kani::assume((cbp as usize) <= h - if $with_value { 1 } else { 0 });
                let mid = if kani::any() { Some(mk_frame(kani::any::<u16>() as usize, kani::any())) } else { None };
                unsafe {
                    match mid {
                        // deeper nesting: [frame0, mid, callee]; returning from callee resumes `mid`
                        Some(m) => { PRE_FRAMES[0] = (m.ip as usize, m.base_pointer); PRE_FRAMES[1] = (7, cbp); PRE_NFRAMES = 2; }
                        None => { PRE_FRAMES[0] = (7, cbp); PRE_NFRAMES = 1; }
                    }
                }
                let r = step(&mut vm, vec![set_op($op), OpCode::Halt as u8], vec![], cbp);
                assert!(r.is_ok());
                let res = if $with_value { pre[h - 1] } else { Object::null() };
                assert!(vm.stack.len() == cbp as usize + 1);
                assert!(same(vm.stack[cbp as usize], res));
                assert!(below_untouched(&vm, &pre, cbp as usize));
                match mid {
                    Some(m) => {
                        assert!(vm.frames.len() == 2);
                        assert!(vm.ip == m.ip as usize && vm.bp == m.base_pointer);
                    }
                    None => {
                        assert!(vm.frames.len() == 1);
                        assert!(vm.ip == 0 && vm.bp == 0);
                    }
                }
                // the collector ran once, with exactly these roots: stack (already truncated), constants, globals, [final_result(, result)]
                unsafe {
                    assert!(GC_RUNS == 1 && NROOTS == 4);
                    assert!(ROOTS[0] == (vm.stack.as_ptr() as usize, cbp as usize));
                    assert!(ROOTS[2] == (vm.globals.as_ptr() as usize, vm.globals.len()));
                    assert!(LAST_ROOT_LEN == if $with_value { 2 } else { 1 });
                    if $with_value {
                        assert!(LAST_ROOT[1] == word(res));
                    }
                }
                kani::cover!(mid.is_some() && cbp == 2);
                kani::cover!(mid.is_none() && cbp == 0);
                std::mem::forget(vm);
            }}
        };
    }
    return_contract!(k_return_value, OpCode::ReturnValue, true);
    return_contract!(k_return, OpCode::Return, false);

    // ------------------------------------------------------------------ Array / CallBuiltin / IndexGet / IndexSet (plumbing; kernels verified separately)
    macro_rules! array_contract {
        ($name:ident, $n:expr) => {
            contract! { #[kani::unwind(6)] fn $name() {
                let (mut vm, pre, h) = mk_vm(4);
                let n: u16 = $n; // element count: concrete per harness (0, 2, 3)
                let r = step(&mut vm, vec![set_op(OpCode::Array), n as u8, 0, OpCode::Halt as u8], vec![], 0);
                assert!(r.is_ok());
                let base = h - n as usize;
                assert!(vm.stack.len() == base + 1 && below_untouched(&vm, &pre, base));
                let a = vm.stack[base];
                assert!(a.tag() == Type::Array);
                let v = a.as_vec();
                assert!(v.len() == n as usize);
                let mut i = 0;
                while i < n as usize {
                    assert!(same(v[i], pre[base + i])); // source order
                    i += 1;
                }
                assert!(vm.ip == 3);
                kani::cover!(pre[3].tag() == Type::Int);
                std::mem::forget(vm);
            }}
        };
    }
    array_contract!(k_array_0, 0);
    array_contract!(k_array_2, 2);
    array_contract!(k_array_3, 3);

    static mut BI_NUM: u8 = 255;
    static mut BI_ARGS: [usize; 3] = [0; 3];
    static mut BI_NARGS: usize = 99;
    static mut BI_RESULT: usize = 0;
    static mut BI_FAIL: bool = false;
    fn builtin_call_stub(b: builtins::Builtin, args: &[Object], _gc: &mut GC) -> Result<Object, Error> {
        unsafe {
            BI_NUM = b as u8;
            BI_NARGS = args.len();
            let mut i = 0;
            while i < args.len() && i < 3 {
                BI_ARGS[i] = word(args[i]);
                i += 1;
            }
            if BI_FAIL { Err(Error::ArgumentError(RStringAlias::new())) } else { Ok(from_word(BI_RESULT)) }
        }
    }
    type RStringAlias = std::string::String;

    macro_rules! call_builtin_contract {
        ($name:ident, $n:expr) => {
            #[kani::proof]
            #[kani::unwind(6)]
            #[kani::stub(std::fmt::format, fmt_stub)]
            #[kani::stub(crate::vm::VM::next, crate::vm::VM::next_stub)]
            #[kani::stub(crate::gc::GC::trace, gc_obj_stub)]
            #[kani::stub(crate::gc::GC::maybe_trace, gc_obj_stub)]
            #[kani::stub(crate::gc::GC::untrace, gc_obj_stub)]
            #[kani::stub(crate::gc::GC::destroy, gc_unit_stub)]
            #[kani::stub(crate::builtins::call, builtin_call_stub)]
            fn $name() {
                let (mut vm, pre, h) = mk_vm(4);
                let n: u8 = $n; // argument count: concrete per harness (0, 1, 3)
                let b: u8 = kani::any();
                kani::assume(b <= builtins::Builtin::Length as u8); // pre_op: a builtin number the compiler can emit
                let res = arb_imm().0;
                let fail: bool = kani::any();
                unsafe { BI_RESULT = word(res); BI_FAIL = fail; }
                let r = step(&mut vm, vec![set_op(OpCode::CallBuiltin), b, n, OpCode::Halt as u8], vec![], 0);
                let base = h - n as usize;
                unsafe {
                    assert!(BI_NUM == b && BI_NARGS == n as usize);
                    let mut i = 0;
                    while i < n as usize {
                        assert!(BI_ARGS[i] == word(pre[base + i])); // arguments in source order
                        i += 1;
                    }
                }
                if fail {
                    match r { Err(e) => assert!(kind(&e) == 4), Ok(_) => assert!(false) }
                    assert!(vm.stack.len() == base);
                } else {
                    assert!(r.is_ok());
                    assert!(vm.stack.len() == base + 1 && same(vm.stack[base], res));
                    assert!(vm.ip == 3);
                }
                assert!(below_untouched(&vm, &pre, base));
                kani::cover!(b == 6 && !fail);
                kani::cover!(fail);
                std::mem::forget(vm);
            }
        };
    }
    call_builtin_contract!(k_call_builtin_0, 0);
    call_builtin_contract!(k_call_builtin_1, 1);
    call_builtin_contract!(k_call_builtin_3, 3);

    static mut IX_ARGS: [usize; 3] = [0; 3];
    fn index_get_stub(left: Object, index: Object, _gc: &mut GC) -> Result<Object, Error> {
        unsafe {
            IX_ARGS[0] = word(left);
            IX_ARGS[1] = word(index);
            if BI_FAIL { Err(Error::IndexError(RStringAlias::new())) } else { Ok(from_word(BI_RESULT)) }
        }
    }
    fn index_set_stub(left: Object, index: Object, value: Object) -> Result<Object, Error> {
        unsafe {
            IX_ARGS[0] = word(left);
            IX_ARGS[1] = word(index);
            IX_ARGS[2] = word(value);
            if BI_FAIL { Err(Error::IndexError(RStringAlias::new())) } else { Ok(value) }
        }
    }

    #[kani::proof]
    #[kani::stub(std::fmt::format, fmt_stub)]
    #[kani::stub(crate::vm::VM::next, crate::vm::VM::next_stub)]
    #[kani::stub(crate::gc::GC::trace, gc_obj_stub)]
    #[kani::stub(crate::gc::GC::maybe_trace, gc_obj_stub)]
    #[kani::stub(crate::gc::GC::untrace, gc_obj_stub)]
    #[kani::stub(crate::gc::GC::destroy, gc_unit_stub)]
    #[kani::stub(crate::vm::index_get, index_get_stub)]
    fn k_index_get_plumbing() {
        let (mut vm, pre, h) = mk_vm(3);
        let res = arb_imm().0;
        let fail: bool = kani::any();
        unsafe { BI_RESULT = word(res); BI_FAIL = fail; }
        let r = step(&mut vm, vec![set_op(OpCode::IndexGet), OpCode::Halt as u8], vec![], 0);
        unsafe {
            assert!(IX_ARGS[0] == word(pre[h - 2])); // container below the index
            assert!(IX_ARGS[1] == word(pre[h - 1]));
        }
        if fail {
            match r { Err(e) => assert!(kind(&e) == 3), Ok(_) => assert!(false) }
        } else {
            assert!(r.is_ok() && vm.stack.len() == h - 1 && same(vm.stack[h - 2], res));
        }
        assert!(below_untouched(&vm, &pre, h - 2));
        kani::cover!(fail);
        kani::cover!(!fail);
        std::mem::forget(vm);
    }

    #[kani::proof]
    #[kani::stub(std::fmt::format, fmt_stub)]
    #[kani::stub(crate::vm::VM::next, crate::vm::VM::next_stub)]
    #[kani::stub(crate::gc::GC::trace, gc_obj_stub)]
    #[kani::stub(crate::gc::GC::maybe_trace, gc_obj_stub)]
    #[kani::stub(crate::gc::GC::untrace, gc_obj_stub)]
    #[kani::stub(crate::gc::GC::destroy, gc_unit_stub)]
    #[kani::stub(crate::vm::index_set, index_set_stub)]
    fn k_index_set_plumbing() {
        let (mut vm, pre, h) = mk_vm(4);
        let fail: bool = kani::any();
        unsafe { BI_FAIL = fail; }
        let r = step(&mut vm, vec![set_op(OpCode::IndexSet), OpCode::Halt as u8], vec![], 0);
        unsafe {
            assert!(IX_ARGS[0] == word(pre[h - 3])); // container, index, value in source order
            assert!(IX_ARGS[1] == word(pre[h - 2]));
            assert!(IX_ARGS[2] == word(pre[h - 1]));
        }
        if fail {
            match r { Err(e) => assert!(kind(&e) == 3), Ok(_) => assert!(false) }
        } else {
            // the value of an assignment is the assigned value
            assert!(r.is_ok() && vm.stack.len() == h - 2 && same(vm.stack[h - 3], pre[h - 1]));
        }
        assert!(below_untouched(&vm, &pre, h - 3));
        kani::cover!(fail);
        kani::cover!(!fail && h == 4);
        std::mem::forget(vm);
    }

    // ------------------------------------------------------------------ C13: index kernels over ANY isize index
    fn arr_of(n: usize) -> (Object, [Object; 3]) {
        let e = [arb_imm().0, arb_imm().0, arb_imm().0];
        let mut v = Vec::with_capacity(3);
        let mut i = 0;
        while i < 3 {
            if i < n { v.push(e[i]); }
            i += 1;
        }
        (crate::object::Object::array(v, &mut GC::new()), e)
    }

    /// position selected by `index` in a sequence of `n` elements: from the front for >= 0, from the back for < 0
    fn position(index: isize, n: usize) -> Option<usize> {
        let j: i128 = if index < 0 { index as i128 + n as i128 } else { index as i128 };
        if j >= 0 && j < n as i128 { Some(j as usize) } else { None }
    }

    macro_rules! array_index_contract {
        ($get:ident, $set:ident, $n:expr) => {
            #[kani::proof]
            #[kani::unwind(6)]
            #[kani::stub(std::fmt::format, fmt_stub)]
            #[kani::stub(crate::gc::GC::trace, gc_obj_stub)]
            #[kani::stub(crate::gc::GC::destroy, gc_unit_stub)]
            fn $get() {
                let (a, e) = arr_of($n);
                let index: isize = kani::any();
                let r = index_get_array(a, index);
                match position(index, $n) {
                    Some(j) => match r { Ok(v) => assert!(same(v, e[j])), Err(_) => assert!(false) },
                    None => match r { Err(er) => assert!(kind(&er) == 3), Ok(_) => assert!(false) },
                }
                // reading never changes the sequence
                let v = a.as_vec();
                assert!(v.len() == $n);
                let mut i = 0;
                while i < $n { assert!(same(v[i], e[i])); i += 1; }
                kani::cover!(index == -1);
                kani::cover!(index == isize::MIN);
                kani::cover!(index == $n as isize);
            }

            #[kani::proof]
            #[kani::unwind(6)]
            #[kani::stub(std::fmt::format, fmt_stub)]
            #[kani::stub(crate::gc::GC::trace, gc_obj_stub)]
            #[kani::stub(crate::gc::GC::destroy, gc_unit_stub)]
            fn $set() {
                let (mut a, e) = arr_of($n);
                let index: isize = kani::any();
                let x = arb_imm().0;
                let r = index_set_array(a.as_vec_mut(), index, x);
                let p = position(index, $n);
                match p {
                    Some(_) => assert!(r.is_ok()),
                    None => match r { Err(er) => assert!(kind(&er) == 3), Ok(_) => assert!(false) },
                }
                let v = a.as_vec();
                assert!(v.len() == $n);
                let mut i = 0;
                while i < $n {
                    if Some(i) == p { assert!(same(v[i], x)); } else { assert!(same(v[i], e[i])); } // unchanged on error
                    i += 1;
                }
                kani::cover!(index == -1);
                kani::cover!(index == -($n as isize) - 1);
                kani::cover!(index == $n as isize);
            }
        };
    }
    array_index_contract!(c13_array_get_0, c13_array_set_0, 0);
    array_index_contract!(c13_array_get_1, c13_array_set_1, 1);
    array_index_contract!(c13_array_get_3, c13_array_set_3, 3);

    fn text_is(o: Object, t: &str) -> bool {
        if o.tag() != Type::String { return false; }
        let s = o.as_str().as_bytes();
        let e = t.as_bytes();
        if s.len() != e.len() { return false; }
        let mut i = 0;
        let mut ok = true;
        while i < e.len() { ok = ok && s[i] == e[i]; i += 1; }
        ok
    }

    /// strings are indexed by CHARACTER: (text, its characters) per harness; 1- to 4-byte code points
    macro_rules! string_index_contract {
        ($get:ident, $set:ident, $text:expr, $chars:expr, $after:expr) => {
            #[kani::proof]
            #[kani::unwind(12)]
            #[kani::stub(std::fmt::format, fmt_stub)]
            #[kani::stub(crate::gc::GC::trace, gc_obj_stub)]
            #[kani::stub(crate::gc::GC::destroy, gc_unit_stub)]
            fn $get() {
                let chars: &[&str] = &$chars;
                let s = crate::object::__verif_k::mk_text($text);
                let index: isize = kani::any();
                let mut gc = std::mem::ManuallyDrop::new(GC::new());
                let r = index_get_string(s, index, &mut gc);
                match position(index, chars.len()) {
                    Some(j) => match r { Ok(v) => assert!(text_is(v, chars[j])), Err(_) => assert!(false) },
                    None => match r { Err(er) => assert!(kind(&er) == 3), Ok(_) => assert!(false) },
                }
                assert!(text_is(s, $text));
                kani::cover!(index == -1);
                kani::cover!(index == chars.len() as isize);
                kani::cover!(index == isize::MIN);
            }

            #[kani::proof]
            #[kani::unwind(16)]
            #[kani::stub(std::fmt::format, fmt_stub)]
            #[kani::stub(crate::gc::GC::trace, gc_obj_stub)]
            #[kani::stub(crate::gc::GC::destroy, gc_unit_stub)]
            fn $set() {
                // replace one character by the text "Zé": expected results listed per position
                let chars: &[&str] = &$chars;
                let after: &[&str] = &$after;
                let mut s = crate::object::__verif_k::mk_text($text);
                let index: isize = kani::any();
                let some: bool = kani::any();
                let val = if some { Some(std::string::String::from("Zé")) } else { None };
                let r = index_set_string(s.as_string_mut(), index, val);
                match position(index, chars.len()) {
                    Some(j) => {
                        if some {
                            assert!(r.is_ok());
                            assert!(text_is(s, after[j]));
                        } else {
                            // a value that is not text: TypeError, text unchanged
                            match r { Err(er) => assert!(kind(&er) == 0), Ok(_) => assert!(false) }
                            assert!(text_is(s, $text));
                        }
                    }
                    None => {
                        match r { Err(er) => assert!(kind(&er) == 3), Ok(_) => assert!(false) }
                        assert!(text_is(s, $text));
                    }
                }
                kani::cover!(index == -1 && some);
                kani::cover!(index == chars.len() as isize);
                kani::cover!(!some && index == 0);
            }
        };
    }
    string_index_contract!(c13_string_get_empty, c13_string_set_empty, "", [], []);
    string_index_contract!(c13_string_get_ab, c13_string_set_ab, "ab", ["a", "b"], ["Zéb", "aZé"]);
    string_index_contract!(c13_string_get_mixed, c13_string_set_mixed, "aé€", ["a", "é", "€"], ["Zéé€", "aZé€", "aéZé"]);
    string_index_contract!(c13_string_get_flag, c13_string_set_flag, "🇳x", ["🇳", "x"], ["Zéx", "🇳Zé"]);

    /// index_get / index_set dispatch: index must be an int (TypeError), container must be a list or text (TypeError)
    #[kani::proof]
    #[kani::unwind(8)]
    #[kani::stub(std::fmt::format, fmt_stub)]
    #[kani::stub(crate::gc::GC::trace, gc_obj_stub)]
    #[kani::stub(crate::gc::GC::destroy, gc_unit_stub)]
    fn c13_index_type_errors() {
        let (left, ml) = crate::object::__verif_k::arb_obj();
        let (idx, mi) = crate::object::__verif_k::arb_obj();
        kani::assume(mi.ty() != 1 || (ml.ty() != 5 && ml.ty() != 6)); // everything but (sequence, int)
        let mut gc = std::mem::ManuallyDrop::new(GC::new());
        let set: bool = kani::any();
        let r = if set { index_set(left, idx, arb_imm().0) } else { index_get(left, idx, &mut gc) };
        match r { Err(e) => assert!(kind(&e) == 0), Ok(_) => assert!(false) }
        kani::cover!(set && ml.ty() == 6 && mi.ty() == 4);
        kani::cover!(!set && ml.ty() == 1 && mi.ty() == 1);
        kani::cover!(ml.ty() == 5 && mi.ty() == 2);
    }
}
