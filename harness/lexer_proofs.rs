// ===== appended by /verif (overlay only): Kani proof harnesses for lexer.rs (C08, front-end half of C05) =====
// lexer.rs is verbatim.  Every harness runs the REAL `Tokenizer::next` and compares with a reference tokenizer written
// from the README / the statement of C08 (`ref_next` below, ~60 lines over code points).
//
// Shape of every harness (measured, DESIGN.md 1): the FIRST character of the token under test is concrete (so the
// dispatch `match` of Tokenizer::next folds to one arm; a symbolic first character makes CBMC explore every arm and the
// recursion `return self.next()` under every arm: not finished in 25 min for 2 bytes) and is enumerated by a loop over
// concrete characters; everything after it - the tail bytes, the length of the text, the byte before the token - is
// symbolic.  The arms that recurse (white space, comments) additionally get a concrete first character of what follows.
//
// Stubs: char::is_alphabetic / char::is_alphanumeric -> exact on ASCII, a 12-entry table for the non-ASCII characters the
// harnesses use, and a panic for any other character (so a harness cannot silently leave the table);
// core::str::slice_error_fail -> panic (a slice at a non-boundary IS a failure); error-message formatting is not involved.
#[cfg(kani)]
pub(crate) mod __verif_k {
    use super::*;

    // ------------------------------------------------------------------ stubs
    pub fn nonascii_alpha(c: char) -> bool {
        match c {
            'é' | 'ë' | 'ï' | 'π' | 'ß' | 'Ω' => true,
            '€' | '\u{2028}' | '\u{2029}' | '\u{0085}' | '\u{200E}' | '\u{200F}' | '\u{00A0}' | '٣' | '🇳' | '²' => false,
            _ => panic!("character outside the harness table"),
        }
    }
    pub fn is_alpha_stub(c: char) -> bool {
        if (c as u32) < 128 { c.is_ascii_alphabetic() } else { nonascii_alpha(c) }
    }
    pub fn is_alnum_stub(c: char) -> bool {
        // '٣' (ARABIC-INDIC DIGIT THREE) and '²' are numeric, not alphabetic: both count as alphanumeric for char::is_alphanumeric
        if (c as u32) < 128 { c.is_ascii_alphanumeric() } else { nonascii_alpha(c) || c == '٣' || c == '²' }
    }
    pub fn is_numeric_stub(c: char) -> bool {
        if (c as u32) < 128 { c.is_ascii_digit() } else if c == '٣' || c == '²' { true } else { let _ = nonascii_alpha(c); false }
    }
    pub fn slice_fail_stub(_s: &str, _b: usize, _e: usize) -> ! {
        panic!("str slice at a non-boundary / out of range")
    }

    // ------------------------------------------------------------------ reference tokenizer (code points, from the documents)
    pub const K_IDENT: u8 = 1;
    pub const K_INT: u8 = 2;
    pub const K_FLOAT: u8 = 3;
    pub const K_STRING: u8 = 4;
    pub const K_ILLEGAL: u8 = 40;

    pub fn kind_of(t: &Token) -> u8 {
        match t {
            Identifier(_) => 1, Int(_) => 2, Float(_) => 3, String(_) => 4,
            If => 5, Else => 6, Return => 7, Func => 8, While => 9, Declare => 10, True => 11, False => 12, Break => 13, Continue => 14,
            Lte => 15, Gte => 16, Eq => 17, Neq => 18, And => 19, Or => 20,
            Assign => 21, Semi => 22, Comma => 23, Dot => 24, OpenParen => 25, CloseParen => 26, OpenBrace => 27, CloseBrace => 28,
            OpenBracket => 29, CloseBracket => 30, Bang => 31, Lt => 32, Gt => 33, Minus => 34, Plus => 35, Star => 36, Slash => 37,
            Caret => 38, Percent => 39, Illegal => 40,
        }
    }
    pub fn text_of<'a>(t: &Token<'a>) -> Option<&'a str> {
        match t { Identifier(x) | Int(x) | Float(x) | String(x) => Some(x), _ => None }
    }
    fn weq(buf: &[u8], s: usize, e: usize, w: &[u8]) -> bool {
        if e - s != w.len() { return false; }
        let mut i = 0;
        while i < w.len() { if buf[s + i] != w[i] { return false; } i += 1; }
        true
    }
    fn keyword(buf: &[u8], s: usize, e: usize) -> u8 {
        if weq(buf, s, e, b"als") { 5 } else if weq(buf, s, e, b"anders") { 6 } else if weq(buf, s, e, b"antwoord") { 7 }
        else if weq(buf, s, e, b"functie") { 8 } else if weq(buf, s, e, b"zolang") { 9 } else if weq(buf, s, e, b"stel") { 10 }
        else if weq(buf, s, e, b"ja") { 11 } else if weq(buf, s, e, b"nee") { 12 } else if weq(buf, s, e, b"stop") { 13 }
        else if weq(buf, s, e, b"volgende") { 14 } else { K_IDENT }
    }
    /// code point at `pos` of valid UTF-8 (value, width)
    fn cp(buf: &[u8], pos: usize) -> (u32, usize) {
        let b = buf[pos] as u32;
        if b < 0x80 { (b, 1) }
        else if b < 0xE0 { (((b & 0x1F) << 6) | (buf[pos + 1] as u32 & 0x3F), 2) }
        else if b < 0xF0 { (((b & 0x0F) << 12) | ((buf[pos + 1] as u32 & 0x3F) << 6) | (buf[pos + 2] as u32 & 0x3F), 3) }
        else { (((b & 0x07) << 18) | ((buf[pos + 1] as u32 & 0x3F) << 12) | ((buf[pos + 2] as u32 & 0x3F) << 6) | (buf[pos + 3] as u32 & 0x3F), 4) }
    }
    fn r_alpha(c: u32) -> bool {
        if c < 128 { (c as u8).is_ascii_alphabetic() } else { matches!(c, 0xE9 | 0xEB | 0xEF | 0x3C0 | 0xDF | 0x3A9) }
    }
    fn r_alnum(c: u32) -> bool {
        if c < 128 { (c as u8).is_ascii_alphanumeric() } else { r_alpha(c) || c == 0x663 || c == 0xB2 }
    }
    fn r_word(c: u32) -> bool { r_alnum(c) || c == '_' as u32 }
    fn r_ws(c: u32) -> bool {
        matches!(c, 9 | 10 | 11 | 12 | 13 | 32 | 0x85 | 0x200E | 0x200F | 0x2028 | 0x2029)
    }
    fn r_digit(c: u32) -> bool { c >= '0' as u32 && c <= '9' as u32 }

    #[derive(Clone, Copy)]
    pub struct RTok { pub kind: u8, pub start: usize, pub end: usize }

    /// next token of the text buf[..n] from byte position `pos`: Some((token, position after it)) or None at the end of the text
    pub fn ref_next(buf: &[u8], n: usize, mut pos: usize) -> Option<(RTok, usize)> {
        loop {
            if pos >= n { return None; }
            let (c, w) = cp(buf, pos);
            if r_ws(c) { pos += w; continue; }
            if c == '/' as u32 && pos + 1 < n && buf[pos + 1] == b'/' {
                pos += 2;
                while pos < n && buf[pos] != b'\n' { pos += 1; }
                continue;
            }
            let start = pos;
            if r_alpha(c) || c == '_' as u32 {
                let mut e = pos + w;
                while e < n { let (d, dw) = cp(buf, e); if !r_word(d) { break; } e += dw; }
                return Some((RTok { kind: keyword(buf, start, e), start, end: e }, e));
            }
            if r_digit(c) {
                let mut e = pos + 1;
                let mut dec = false;
                while e < n && (r_digit(buf[e] as u32) || (buf[e] == b'.' && !dec)) { if buf[e] == b'.' { dec = true; } e += 1; }
                return Some((RTok { kind: if dec { K_FLOAT } else { K_INT }, start, end: e }, e));
            }
            if c == '"' as u32 {
                // the literal ends at the first quote that is not escaped; a backslash escapes exactly the character after it
                let mut e = pos + 1;
                let mut esc = false;
                while e < n && (buf[e] != b'"' || esc) { esc = !esc && buf[e] == b'\\'; e += 1; }
                if e >= n {
                    // no closing quote: the rest of the text must not vanish - it has to surface as an error token
                    return Some((RTok { kind: K_ILLEGAL, start, end: n }, n));
                }
                return Some((RTok { kind: K_STRING, start: start + 1, end: e }, e + 1));
            }
            let two = if pos + 1 < n { buf[pos + 1] } else { 0 };
            let (k, l) = match (c as u8, two) {
                _ if c >= 128 => (K_ILLEGAL, w),
                (b'=', b'=') => (17, 2), (b'!', b'=') => (18, 2), (b'<', b'=') => (15, 2), (b'>', b'=') => (16, 2),
                (b'&', b'&') => (19, 2), (b'|', b'|') => (20, 2),
                (b'=', _) => (21, 1), (b'!', _) => (31, 1), (b'<', _) => (32, 1), (b'>', _) => (33, 1), (b'/', _) => (37, 1),
                (b';', _) => (22, 1), (b',', _) => (23, 1), (b'.', _) => (24, 1), (b'(', _) => (25, 1), (b')', _) => (26, 1),
                (b'{', _) => (27, 1), (b'}', _) => (28, 1), (b'[', _) => (29, 1), (b']', _) => (30, 1), (b'-', _) => (34, 1),
                (b'+', _) => (35, 1), (b'*', _) => (36, 1), (b'^', _) => (38, 1), (b'%', _) => (39, 1),
                _ => (K_ILLEGAL, 1),
            };
            return Some((RTok { kind: k, start, end: start + l }, start + l));
        }
    }

    // ------------------------------------------------------------------ harness plumbing
    pub fn as_text(buf: &[u8]) -> &str { unsafe { std::str::from_utf8_unchecked(buf) } }
    pub fn ascii() -> u8 { let b: u8 = kani::any(); kani::assume(b < 128); b }

    /// A tokenizer over buf[..n] that has already consumed `skip` bytes (what the real one would be after earlier tokens).
    pub fn tok_at<'a>(buf: &'a [u8], n: usize, skip: usize) -> Tokenizer<'a> {
        let txt = as_text(&buf[..n]);
        Tokenizer { pos: skip, input: txt, chars: txt[skip..].chars() }
    }

    /// one call of the real next() from byte `skip` of buf[..n] against the reference; returns the position after the token
    pub fn check_one(buf: &[u8], n: usize, skip: usize) -> Option<usize> {
        let mut t = tok_at(buf, n, skip);
        let got = t.next();
        let want = ref_next(buf, n, skip);
        match (got, want) {
            (None, None) => None,
            (Some(g), Some((w, np))) => {
                assert!(kind_of(&g) == w.kind, "token kind");
                if let Some(x) = text_of(&g) {
                    assert!(x.as_ptr() as usize == buf.as_ptr() as usize + w.start, "token text starts where the spelling starts");
                    assert!(x.len() == w.end - w.start, "token text is the exact spelling");
                }
                assert!(t.pos == np, "consumed exactly the token");
                // the iterator and the byte position stay in step (nothing skipped, nothing re-read)
                assert!(t.chars.as_str().len() == n - np, "iterator position");
                Some(np)
            }
            (None, Some(_)) => { assert!(false, "input silently dropped: the tokenizer reports end of input"); None }
            (Some(_), None) => { assert!(false, "token out of nothing"); None }
        }
    }

    /// text = [one symbolic byte already consumed] ++ first ++ t symbolic ASCII bytes, for every t in 0..=k
    pub fn first_case(c0: char, k: usize) {
        let w = c0.len_utf8();
        // the length of the text is enumerated (a symbolic length makes the end pointer of the `Chars` iterator symbolic:
        // measured, not finished in 300 s), the bytes are symbolic
        let mut t = 0;
        while t <= k {
            let mut buf = [0u8; 16];
            buf[0] = ascii();
            c0.encode_utf8(&mut buf[1..5]);
            let mut i = 0;
            while i < t { buf[1 + w + i] = ascii(); i += 1; }
            let r = check_one(&buf, 1 + w + t, 1);
            kani::cover!(r.is_some());
            t += 1;
        }
    }
    macro_rules! first_char_harness {
        ($name:ident, $unwind:expr, $k:expr, [$($c:expr),+ $(,)?]) => {
            #[kani::proof]
            #[kani::unwind($unwind)]
            #[kani::stub(char::is_alphabetic, is_alpha_stub)]
            #[kani::stub(char::is_alphanumeric, is_alnum_stub)]
            #[kani::stub(char::is_numeric, is_numeric_stub)]
            #[kani::stub(core::str::slice_error_fail, slice_fail_stub)]
            fn $name() {
                $( first_case($c, $k); )+
            }
        };
    }

    // ------------------------------------------------------------------ C08: one token, concrete first character, symbolic rest
    // operators that have a two-character form, and the slash (division vs. comment start is decided by the next byte;
    // the comment case recurses and is covered by c08_comment_*)
    first_char_harness!(c08_first_two_char_ops, 6, 2, ['=', '!', '<', '>', '&', '|']);
    first_char_harness!(c08_first_punct, 6, 2, [';', ',', '.', '(', ')', '{', '}', '[', ']', '-', '+', '*', '^', '%']);
    first_char_harness!(c08_first_illegal, 6, 2, ['#', '$', '\'', ':', '?', '@', '\\', '`', '~', '\u{0}', '\u{7}', '\u{1b}', '\u{7f}', '€', '🇳', '\u{00A0}', '٣', '²']);
    // measured: one first character costs 30 s (2 symbolic bytes) / 60 s (3) / 105 s (4) => one character per harness
    first_char_harness!(c08_first_digit_0, 8, 3, ['0']);
    first_char_harness!(c08_first_digit_9, 8, 2, ['9']);
    first_char_harness!(c08_first_digit_5_k4, 8, 4, ['5']);
    first_char_harness!(c08_first_quote, 8, 4, ['"']);
    // identifiers and keywords: every letter that starts a keyword, other letters, capitals, underscore, non-ASCII letters
    first_char_harness!(c08_first_letter_a, 8, 3, ['a']);
    first_char_harness!(c08_first_letter_s, 8, 3, ['s']);
    first_char_harness!(c08_first_letter_n, 8, 3, ['n']);
    first_char_harness!(c08_first_letter_j, 8, 2, ['j']);
    first_char_harness!(c08_first_underscore, 8, 2, ['_']);
    first_char_harness!(c08_first_letter_eacute, 8, 2, ['é']);
    // thorough tier (names ending in _x / _k4)
    first_char_harness!(c08_first_letter_z_x, 8, 2, ['z']);
    first_char_harness!(c08_first_letter_f_x, 8, 2, ['f']);
    first_char_harness!(c08_first_letter_v_x, 8, 2, ['v']);
    first_char_harness!(c08_first_letter_b_x, 8, 2, ['b']);
    first_char_harness!(c08_first_letter_cap_x, 8, 2, ['Z']);
    first_char_harness!(c08_first_letter_pi_x, 8, 2, ['π']);
    first_char_harness!(c08_first_letter_x_k4, 8, 4, ['x']);

    /// text = [symbolic byte consumed] ++ prefix (concrete) ++ k symbolic ASCII bytes; the token starts at the prefix
    pub fn prefix_case(p: &str, k: usize) {
        let p = p.as_bytes();
        let mut t = 0;
        while t <= k {
            let mut buf = [0u8; 24];
            buf[0] = ascii();
            buf[1..1 + p.len()].copy_from_slice(p);
            let mut j = 0;
            while j < t { buf[1 + p.len() + j] = ascii(); j += 1; }
            let r = check_one(&buf, 1 + p.len() + t, 1);
            kani::cover!(r.is_some());
            t += 1;
        }
    }
    macro_rules! prefix_harness {
        ($name:ident, $unwind:expr, $k:expr, [$($p:expr),+ $(,)?]) => {
            #[kani::proof]
            #[kani::unwind($unwind)]
            #[kani::stub(char::is_alphabetic, is_alpha_stub)]
            #[kani::stub(char::is_alphanumeric, is_alnum_stub)]
            #[kani::stub(char::is_numeric, is_numeric_stub)]
            #[kani::stub(core::str::slice_error_fail, slice_fail_stub)]
            fn $name() {
                $( prefix_case($p, $k); )+
            }
        };
    }

    // keywords are recognised only as whole words: the whole keyword, then anything (quick); the keyword minus its last
    // letter, then anything (thorough)
    prefix_harness!(c08_keyword_antwoord, 14, 2, ["antwoord"]);
    prefix_harness!(c08_keyword_volgende, 14, 2, ["volgende"]);
    prefix_harness!(c08_keyword_functie, 14, 2, ["functie"]);
    prefix_harness!(c08_keyword_zolang, 14, 2, ["zolang"]);
    prefix_harness!(c08_keyword_anders, 14, 2, ["anders"]);
    prefix_harness!(c08_keyword_als_stel, 10, 2, ["als", "stel"]);
    prefix_harness!(c08_keyword_stop_nee, 10, 2, ["stop", "nee"]);
    prefix_harness!(c08_keyword_ja, 10, 2, ["ja"]);
    // a keyword is a keyword whatever follows the word: every non-ASCII white-space form, a non-ASCII non-letter; and a
    // non-ASCII LETTER after it makes it an identifier
    prefix_harness!(c08_keyword_then_nonascii, 14, 0, ["stop\u{2028}", "ja\u{0085}", "anders\u{200E}", "als\u{2029}x", "nee\u{200F}", "stel\u{2028}a", "zolang€", "jaé", "stopπ "]);
    prefix_harness!(c08_keyword_case_x, 10, 2, ["Als", "jA"]);
    prefix_harness!(c08_keyword_cut_a_x, 14, 2, ["antwoor", "volgend"]);
    prefix_harness!(c08_keyword_cut_b_x, 14, 2, ["functi", "zolan", "ander"]);
    // identifiers keep their exact spelling: digits, underscores and non-ASCII letters inside; stop at a non-letter
    prefix_harness!(c08_ident_inner_a, 12, 1, ["a1", "a_", "aé"]);
    prefix_harness!(c08_ident_inner_b, 12, 1, ["éa", "a€", "a\u{2028}"]);
    prefix_harness!(c08_ident_inner_c, 12, 1, ["x٣", "a²"]);
    prefix_harness!(c08_ident_inner_k2_x, 12, 2, ["a1", "aé"]);
    // numbers: exact spelling; one decimal point at most
    prefix_harness!(c08_number_inner_a, 12, 2, ["1.", "1.5", "10"]);
    prefix_harness!(c08_number_inner_b, 12, 2, ["1.2.", "0é", "7\u{2028}"]);
    // a number ends before a non-ASCII digit / superscript (they are not part of the number's spelling)
    prefix_harness!(c08_number_inner_c, 12, 1, ["1²", "2.5²", "1٣", "3.٣"]);
    // string literals: escapes do not end the literal, an escaped backslash does not escape the quote, non-ASCII content
    prefix_harness!(c08_string_inner_a, 12, 2, ["\"\\\"", "\"\\\\"]);
    prefix_harness!(c08_string_inner_b, 12, 2, ["\"€\"", "\"a\\", "\"\\n"]);
    prefix_harness!(c08_string_inner_c, 12, 2, ["\"\\\\\\\\", "\"\\\\\\"]);
    prefix_harness!(c08_string_inner_d, 12, 2, ["\"é"]);

    // white space (every form) and comments are skipped, then the SAME function runs on what follows (it recurses):
    // concrete skipped part, concrete first character of what follows, symbolic rest
    pub fn skip_case(sk: &str, fo: &str, k: usize) {
        let s = sk.as_bytes();
        let f = fo.as_bytes();
        let base = 1 + s.len() + f.len();
        let mut t = 0;
        while t <= k {
            let mut buf = [0u8; 24];
            buf[0] = ascii();
            buf[1..1 + s.len()].copy_from_slice(s);
            buf[1 + s.len()..base].copy_from_slice(f);
            let mut l = 0;
            while l < t { buf[base + l] = ascii(); l += 1; }
            let r = check_one(&buf, base + t, 1);
            // one reachability witness per case: a token when something follows, the end of the text when nothing does
            kani::cover!(if f.len() > 0 { r.is_some() } else { t > 0 || r.is_none() });
            t += 1;
        }
    }
    macro_rules! skip_harness {
        ($name:ident, $unwind:expr, $k:expr, [$($s:expr),+ $(,)?], $f:tt) => {
            #[kani::proof]
            #[kani::unwind($unwind)]
            #[kani::stub(char::is_alphabetic, is_alpha_stub)]
            #[kani::stub(char::is_alphanumeric, is_alnum_stub)]
            #[kani::stub(char::is_numeric, is_numeric_stub)]
            #[kani::stub(core::str::slice_error_fail, slice_fail_stub)]
            fn $name() {
                $( skip_harness!(@one $s, $k, $f); )+
            }
        };
        (@one $s:expr, $k:expr, [$($f:expr),+ $(,)?]) => {
            $( skip_case($s, $f, $k); )+
        };
    }
    // (measured: one case with a symbolic byte = 15-40 s depending on the follower; cases without symbolic bytes ~2 s)
    skip_harness!(c08_ws_each_a, 8, 1, [" ", "\t", "\n", "\r"], ["a"]);
    skip_harness!(c08_ws_each_b, 8, 1, ["\u{b}", "\u{c}", "\u{0085}", "\u{200E}"], ["a"]);
    skip_harness!(c08_ws_each_c, 8, 1, ["\u{200F}", "\u{2028}", "\u{2029}", " \t\r\n "], ["a"]);
    skip_harness!(c08_ws_to_eof, 8, 0, [" ", "\t", "\n", "\r", "\u{b}", "\u{c}", "\u{0085}", "\u{200E}", "\u{200F}", "\u{2028}", "\u{2029}", " \t\r\n "], [""]);
    skip_harness!(c08_ws_then_two_char, 8, 1, [" "], ["=", "\""]);
    skip_harness!(c08_ws_then_each, 8, 0, [" ", "\u{2028}"], ["1", ";", "é", "_", "<=", "//", "/1", "/ /", "\"s\"", "1.5"]);
    skip_harness!(c08_comment_to_eol_a, 10, 1, ["//\n", "// x\n", "//é€\n"], ["a"]);
    skip_harness!(c08_comment_to_eol_b, 10, 1, ["///\n", "//\n//\n", "// x\r\n"], ["a"]);
    // a comment ends at the newline whatever precedes it (a backslash is not an escape in a comment, a quote opens nothing)
    skip_harness!(c08_comment_to_eol_c, 10, 1, ["//\\\n", "// a\\\\\n", "//\"\n"], ["a"]);
    skip_harness!(c08_comment_then_each, 12, 0, ["//\n", "//\\\n", "// \"\n"], ["", "1", ";", "=", "\"s\"", "/", "é", "//"]);
    // a comment that runs to the end of the text, whatever it contains (quotes, keywords, slashes, non-ASCII, a backslash)
    skip_harness!(c08_comment_to_eof, 12, 0, ["//", "// x", "//\"", "// stel", "///", "//é", "// \\"], [""]);

    // ------------------------------------------------------------------ whole streams: every token, nothing dropped, nothing invented
    /// all tokens of buf[..n]; returns the number of tokens
    pub fn check_stream(buf: &[u8], n: usize, max_tokens: usize) -> usize {
        let txt = as_text(&buf[..n]);
        let mut t = Tokenizer::new(txt);
        let mut pos = 0usize;
        let mut count = 0usize;
        while count <= max_tokens {
            let got = t.next();
            let want = ref_next(buf, n, pos);
            match (got, want) {
                (None, None) => return count,
                (Some(g), Some((w, np))) => {
                    assert!(kind_of(&g) == w.kind, "token kind");
                    if let Some(x) = text_of(&g) {
                        assert!(x.as_ptr() as usize == buf.as_ptr() as usize + w.start && x.len() == w.end - w.start, "token spelling");
                    }
                    assert!(t.pos == np, "consumed exactly the token");
                    pos = np;
                }
                (None, Some(_)) => { assert!(false, "input silently dropped"); return count; }
                (Some(_), None) => { assert!(false, "token out of nothing"); return count; }
            }
            count += 1;
        }
        count
    }

    /// whole texts, every token, nothing dropped and nothing invented.  The texts are CONCRETE: a symbolic byte inside a token
    /// makes the position after it - hence the first character of every later token - symbolic (measured: not finished in 300 s).
    /// Composition of tokens is covered instead by starting every single-token harness after an arbitrary consumed byte
    /// (Tokenizer::next depends on the text and the position only); these harnesses validate the reference tokenizer and the
    /// position bookkeeping across calls.
    pub fn stream_case(text: &str) {
        let src = text.as_bytes();
        let mut buf = [0u8; 24];
        buf[..src.len()].copy_from_slice(src);
        let c = check_stream(&buf, src.len(), 12);
        kani::cover!(c >= 3);
    }
    macro_rules! stream_harness {
        ($name:ident, $unwind:expr, [$($t:expr),+ $(,)?]) => {
            #[kani::proof]
            #[kani::unwind($unwind)]
            #[kani::stub(char::is_alphabetic, is_alpha_stub)]
            #[kani::stub(char::is_alphanumeric, is_alnum_stub)]
            #[kani::stub(char::is_numeric, is_numeric_stub)]
            #[kani::stub(core::str::slice_error_fail, slice_fail_stub)]
            fn $name() {
                $( stream_case($t); )+
            }
        };
    }
    stream_harness!(c08_stream_a, 20, ["stel a1=10;", "a<=b>=c", "x==y!=z", "p&&q||!r"]);
    stream_harness!(c08_stream_b, 20, ["f(a,b)[0]", "\"a\\\"\" + s", "1.5*2-3/4", "a//c\nb"]);
    stream_harness!(c08_stream_c, 20, ["als a{1}anders{2}", "zolang ja{stop}", "a=-1%2^3 é"]);
}
