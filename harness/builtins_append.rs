
// ===== appended by /verif (overlay only): capture print output instead of writing to stdout =====
#[cfg(nlverif)]
#[allow(unused_imports)]
use crate::__verif_io::{print, println};
