
// ===== appended by /verif (overlay only): Kani proof harnesses for builtins.rs (C14, C05) =====
#[cfg(kani)]
pub(crate) mod __verif_k {
    use super::*;
    use crate::object::__verif_k::{arb_imm, arb_obj, fmt_stub, mk_str, str_of, word, M, NSTR};
    use crate::object::{MAX_INT, MIN_INT};

    pub fn gc_obj_stub(_gc: &mut GC, _o: Object) {}

    fn kind(e: &Error) -> u8 {
        match e {
            Error::TypeError(_) => 0,
            Error::SyntaxError(_) => 1,
            Error::ReferenceError(_) => 2,
            Error::IndexError(_) => 3,
            Error::ArgumentError(_) => 4,
        }
    }

    fn builtin_of(k: u8) -> Builtin {
        match k {
            0 => Builtin::Type,
            1 => Builtin::Bool,
            2 => Builtin::Float,
            3 => Builtin::Int,
            4 => Builtin::String,
            _ => Builtin::Length,
        }
    }

    fn text_is(o: Object, t: &str) -> bool {
        if o.tag() != Type::String {
            return false;
        }
        let s = o.as_str().as_bytes();
        let e = t.as_bytes();
        if s.len() != e.len() {
            return false;
        }
        let mut i = 0;
        let mut ok = true;
        while i < e.len() {
            ok = ok && s[i] == e[i];
            i += 1;
        }
        ok
    }

    /// every builtin except print: a wrong number of arguments (0, 2, 3) is an ArgumentError, whatever the arguments are
    macro_rules! arity_harness {
        ($name:ident, $n:expr) => {
            #[kani::proof]
            #[kani::unwind(10)]
            #[kani::stub(std::fmt::format, fmt_stub)]
            #[kani::stub(crate::gc::GC::trace, gc_obj_stub)]
            fn $name() {
                let k: u8 = kani::any();
                kani::assume(k <= 5);
                let a = [arb_imm().0, arb_imm().0, arb_imm().0];
                let mut gc = std::mem::ManuallyDrop::new(GC::new());
                match call(builtin_of(k), &a[..$n], &mut gc) {
                    Err(e) => assert!(kind(&e) == 4),
                    Ok(_) => assert!(false, "wrong number of arguments accepted"),
                }
                kani::cover!(k == 0);
                kani::cover!(k == 5);
            }
        };
    }
    arity_harness!(c14_arity_0, 0);
    arity_harness!(c14_arity_2, 2);
    arity_harness!(c14_arity_3, 3);

    /// bool(x): README / C14: positive number or non-empty text / list is ja; own type is the identity; functions are refused
    #[kani::proof]
    #[kani::unwind(10)]
    #[kani::stub(std::fmt::format, fmt_stub)]
    #[kani::stub(crate::gc::GC::trace, gc_obj_stub)]
    fn c14_bool() {
        let (o, m) = arb_obj();
        let mut gc = std::mem::ManuallyDrop::new(GC::new());
        let r = call(Builtin::Bool, &[o], &mut gc);
        let want: Option<bool> = match m {
            M::Null => Some(false),
            M::Bool(b) => Some(b),
            M::Int(i) => Some(i > 0),
            M::Float(bits) => Some(f64::from_bits(bits) > 0.0),
            M::Str(i) => Some(i != 0), // entry 0 is the empty text
            M::Arr(n) => Some(n > 0),
            M::Func(..) => None,
        };
        match (r, want) {
            (Ok(v), Some(w)) => assert!(v.tag() == Type::Bool && v.as_bool() == w),
            (Err(e), None) => assert!(kind(&e) == 4 || kind(&e) == 0),
            _ => assert!(false),
        }
        kani::cover!(m.ty() == 6);
        kani::cover!(m.ty() == 5);
        kani::cover!(m.ty() == 4 && f64::from_bits(match m { M::Float(b) => b, _ => 0 }).is_nan());
        kani::cover!(m.ty() == 3);
        kani::cover!(m.ty() == 1 && match m { M::Int(i) => i < 0, _ => false });
    }

    fn ok_int(r: Result<Object, Error>, want: isize) {
        match r { Ok(v) => assert!(v.tag() == Type::Int && v.as_int() == want), Err(_) => assert!(false) }
    }
    fn refused(r: Result<Object, Error>) {
        match r { Err(e) => assert!(kind(&e) == 4 || kind(&e) == 0), Ok(_) => assert!(false) }
    }

    /// int(x) / float(x) of null, booleans, integers (identity / exact conversion), functions and lists (refused)
    #[kani::proof]
    #[kani::unwind(10)]
    #[kani::stub(std::fmt::format, fmt_stub)]
    #[kani::stub(crate::gc::GC::trace, gc_obj_stub)]
    fn c14_int_float_of_immediates() {
        let mut gc = std::mem::ManuallyDrop::new(GC::new());
        ok_int(call(Builtin::Int, &[Object::null()], &mut gc), 0);
        let b: bool = kani::any();
        ok_int(call(Builtin::Int, &[Object::bool(b)], &mut gc), b as isize);
        let i: isize = kani::any();
        kani::assume(i >= MIN_INT && i <= MAX_INT);
        ok_int(call(Builtin::Int, &[Object::int(i)], &mut gc), i);
        refused(call(Builtin::Int, &[Object::function_with_arity(kani::any(), kani::any(), kani::any())], &mut gc));
        refused(call(Builtin::Float, &[Object::function_with_arity(kani::any(), kani::any(), kani::any())], &mut gc));
        match call(Builtin::Float, &[Object::null()], &mut gc) { Ok(v) => assert!(v.tag() == Type::Float && v.as_f64() == 0.0), Err(_) => assert!(false) }
        match call(Builtin::Float, &[Object::bool(b)], &mut gc) { Ok(v) => assert!(v.as_f64() == if b { 1.0 } else { 0.0 }), Err(_) => assert!(false) }
        match call(Builtin::Float, &[Object::int(i)], &mut gc) {
            Ok(v) => {
                assert!(v.tag() == Type::Float);
                let f = v.as_f64();
                if i.abs() <= (1 << 53) { assert!(f as isize == i); } // exact up to 2^53
                assert!(i == 0 || (f < 0.0) == (i < 0));
            }
            Err(_) => assert!(false),
        }
        kani::cover!(b && i < 0);
    }

    /// int(float): truncation toward zero when the result is in range, ArgumentError when it is not; NaN unconstrained (4.3-11)
    #[kani::proof]
    #[kani::unwind(10)]
    #[kani::stub(std::fmt::format, fmt_stub)]
    #[kani::stub(crate::gc::GC::trace, gc_obj_stub)]
    fn c14_int_of_float() {
        let bits: u64 = kani::any();
        let f = f64::from_bits(bits);
        let mut gc = std::mem::ManuallyDrop::new(GC::new());
        let o = crate::object::Object::float(f, &mut gc);
        let r = call(Builtin::Int, &[o], &mut gc);
        if f.is_nan() {
            // unspecified value; reaching this line without a panic is the check
        } else if f >= 1152921504606846976.0 || f < -1152921504606846976.0 {
            match r { Err(e) => assert!(kind(&e) == 4), Ok(_) => assert!(false) }
        } else {
            match r {
                Ok(v) => {
                    assert!(v.tag() == Type::Int);
                    let x = v.as_int();
                    assert!(x >= MIN_INT && x <= MAX_INT);
                    if f.abs() < 4503599627370496.0 {
                        let xf = x as f64; // exact below 2^52
                        assert!(xf.abs() <= f.abs() && f.abs() - xf.abs() < 1.0);
                        assert!(x == 0 || (x < 0) == (f < 0.0));
                    }
                }
                Err(_) => assert!(false),
            }
        }
        // float(float) is the identity
        match call(Builtin::Float, &[o], &mut gc) { Ok(v) => assert!(word(v) == word(o)), Err(_) => assert!(false) }
        kani::cover!(f.is_nan());
        kani::cover!(f > 1e30);
        kani::cover!(f < -0.5 && f > -1.5);
    }

    /// contract for `Object::tag` on a value made by `Object::float` (decided on the real `tag` by c15_tag_of_every_shape /
    /// c15_float_roundtrip): Float.  The stub ASSERTS the tag bits on the raw word, it does not assume them.  It is what makes
    /// the harness below finish: CBMC does not fold the tag of a heap value, so with the real `tag` every arm of call_int's
    /// `match` is explored, the text arm (`trim().parse()`) included (c14_int_of_float: not decided in 900 s).
    pub fn tag_is_float_stub(o: Object) -> Type {
        assert!(word(o) & 7 == 4, "tag bits of a float value");
        Type::Float
    }

    /// int(float) for EVERY float bit pattern, with `Object::tag` replaced by its contract on float values: ArgumentError iff
    /// the truncated value is outside [MIN_INT, MAX_INT] (f >= 2^60 or f < -2^60; -2^60 itself is MIN_INT), otherwise the integer
    /// with |x| <= |f| < |x| + 1 and the sign of f; NaN unconstrained (4.3-11)
    #[kani::proof]
    #[kani::unwind(10)]
    #[kani::stub(std::fmt::format, fmt_stub)]
    #[kani::stub(crate::gc::GC::trace, gc_obj_stub)]
    #[kani::stub(crate::object::Object::tag, tag_is_float_stub)]
    fn c14_int_of_float_all_bits() {
        let bits: u64 = kani::any();
        let f = f64::from_bits(bits);
        let mut gc = std::mem::ManuallyDrop::new(GC::new());
        let o = crate::object::Object::float(f, &mut gc);
        let r = call(Builtin::Int, &[o], &mut gc);
        if f.is_nan() {
            // unspecified value; reaching this line without a panic is the check
        } else if f >= 1152921504606846976.0 || f < -1152921504606846976.0 {
            match r { Err(e) => assert!(kind(&e) == 4, "out of range: ArgumentError"), Ok(_) => assert!(false, "out of range but a value") }
        } else {
            match r {
                Ok(v) => {
                    assert!(word(v) & 7 == 1, "an integer");
                    let x = v.as_int();
                    assert!(x >= MIN_INT && x <= MAX_INT);
                    if f.abs() < 4503599627370496.0 {
                        let xf = x as f64; // exact below 2^52
                        assert!(xf.abs() <= f.abs() && f.abs() - xf.abs() < 1.0);
                        assert!(x == 0 || (x < 0) == (f < 0.0));
                    } else {
                        // at and above 2^52 every float is an integer: the conversion is exact
                        assert!(x as f64 == f, "exact above 2^52");
                    }
                }
                Err(_) => assert!(false, "in range but an error"),
            }
        }
        kani::cover!(f.is_nan());
        kani::cover!(f == 1152921504606846976.0);
        kani::cover!(f == 1152921504606846848.0);
        kani::cover!(f == -1152921504606846976.0);
        kani::cover!(f < -0.5 && f > -1.5);
    }

    /// type(x) names, lengte(x) in characters, string(x) for null / text / list / function / bool
    #[kani::proof]
    #[kani::unwind(12)]
    #[kani::stub(std::fmt::format, fmt_stub)]
    #[kani::stub(crate::gc::GC::trace, gc_obj_stub)]
    fn c14_type_names() {
        let (o, m) = arb_obj();
        let mut gc = std::mem::ManuallyDrop::new(GC::new());
        let r = call(Builtin::Type, &[o], &mut gc);
        let want = match m {
            M::Null => "null", M::Bool(_) => "bool", M::Int(_) => "int", M::Func(..) => "functie",
            M::Float(_) => "float", M::Str(_) => "string", M::Arr(_) => "array",
        };
        match r { Ok(v) => assert!(text_is(v, want)), Err(_) => assert!(false) }
        kani::cover!(m.ty() == 3);
        kani::cover!(m.ty() == 6);
        kani::cover!(m.ty() == 0);
    }

    #[kani::proof]
    #[kani::unwind(12)]
    #[kani::stub(std::fmt::format, fmt_stub)]
    #[kani::stub(crate::gc::GC::trace, gc_obj_stub)]
    fn c14_lengte() {
        let (o, m) = arb_obj();
        let mut gc = std::mem::ManuallyDrop::new(GC::new());
        let r = call(Builtin::Length, &[o], &mut gc);
        match m {
            M::Str(i) => {
                // characters, not bytes: table = "", a, b, ab, é, aé, €, 🇳
                let chars: isize = match i { 0 => 0, 3 | 5 => 2, _ => 1 };
                match r { Ok(v) => assert!(v.tag() == Type::Int && v.as_int() == chars), Err(_) => assert!(false) }
            }
            M::Arr(n) => match r { Ok(v) => assert!(v.tag() == Type::Int && v.as_int() == n as isize), Err(_) => assert!(false) },
            _ => match r { Err(e) => assert!(kind(&e) == 0 || kind(&e) == 4), Ok(_) => assert!(false) },
        }
        kani::cover!(match m { M::Str(7) => true, _ => false });
        kani::cover!(match m { M::Str(5) => true, _ => false });
        kani::cover!(m.ty() == 6);
        kani::cover!(m.ty() == 1);
    }

    #[kani::proof]
    #[kani::unwind(12)]
    #[kani::stub(std::fmt::format, fmt_stub)]
    #[kani::stub(crate::gc::GC::trace, gc_obj_stub)]
    fn c14_string_non_numeric() {
        let (o, m) = arb_obj();
        kani::assume(m.ty() != 1 && m.ty() != 4); // number -> text: Engine S on concrete numbers (formatting is outside Kani's reach)
        let mut gc = std::mem::ManuallyDrop::new(GC::new());
        let r = call(Builtin::String, &[o], &mut gc);
        match m {
            M::Null => match r { Ok(v) => assert!(text_is(v, "")), Err(_) => assert!(false) },
            M::Str(_) => match r { Ok(v) => assert!(word(v) == word(o)), Err(_) => assert!(false) },
            M::Bool(_) => match r { Ok(v) => assert!(v.tag() == Type::String), Err(_) => assert!(false) },
            M::Arr(_) | M::Func(..) => match r { Err(e) => assert!(kind(&e) == 4 || kind(&e) == 0), Ok(_) => assert!(false) },
            _ => (),
        }
        kani::cover!(m.ty() == 5);
        kani::cover!(m.ty() == 0);
        kani::cover!(m.ty() == 6);
    }

    /// int(text): decimal text from a small table (plain, padded, negative, non-numeric, empty, non-ASCII, out of range)
    #[kani::proof]
    #[kani::unwind(24)]
    #[kani::stub(std::fmt::format, fmt_stub)]
    #[kani::stub(crate::gc::GC::trace, gc_obj_stub)]
    fn c14_int_of_text() {
        let i: u8 = kani::any();
        kani::assume(i < 8);
        let (t, want): (&str, Option<isize>) = match i {
            0 => ("12", Some(12)),
            1 => (" 7 ", Some(7)),
            2 => ("-3", Some(-3)),
            3 => ("", None),
            4 => ("a1", None),
            5 => ("é", None),
            6 => ("1152921504606846976", None), // 2^60: one past the range
            _ => ("1152921504606846975", Some(MAX_INT)),
        };
        let o = crate::object::__verif_k::mk_text(t);
        let mut gc = std::mem::ManuallyDrop::new(GC::new());
        let r = call(Builtin::Int, &[o], &mut gc);
        match (r, want) {
            (Ok(v), Some(w)) => assert!(v.tag() == Type::Int && v.as_int() == w),
            (Err(e), None) => assert!(kind(&e) == 4),
            _ => assert!(false),
        }
        kani::cover!(i == 6);
        kani::cover!(i == 1);
        kani::cover!(i == 5);
    }
}
