
// ===== appended by /verif (overlay only; never part of /repo) =====
// Native observation layer: AST / bytecode dump, captured output, eval & session drivers.
#[cfg(nlverif)]
pub(crate) mod __verif_io {
    use std::cell::RefCell;
    thread_local! {
        pub static OUT: RefCell<String> = RefCell::new(String::new());
    }
    pub fn take() -> String {
        OUT.with(|o| std::mem::take(&mut *o.borrow_mut()))
    }
    macro_rules! __verif_print {
        ($($arg:tt)*) => {{
            let s = format!($($arg)*);
            $crate::__verif_io::OUT.with(|o| o.borrow_mut().push_str(&s));
        }};
    }
    macro_rules! __verif_println {
        () => {{ $crate::__verif_io::OUT.with(|o| o.borrow_mut().push('\n')); }};
        ($($arg:tt)*) => {{
            let s = format!($($arg)*);
            $crate::__verif_io::OUT.with(|o| { let mut b = o.borrow_mut(); b.push_str(&s); b.push('\n'); });
        }};
    }
    pub(crate) use __verif_print as print;
    pub(crate) use __verif_println as println;
}

/// Heap ledger of the native observation layer (C03/C04): a counting global allocator (installed by the nl-dump binary).
/// LIVE = blocks allocated and not yet released, by anything in the process.
#[cfg(nlverif)]
pub mod __verif_heap {
    use std::alloc::{GlobalAlloc, Layout, System};
    use std::sync::atomic::{AtomicIsize, Ordering};
    pub static LIVE: AtomicIsize = AtomicIsize::new(0);
    pub struct Counting;
    unsafe impl GlobalAlloc for Counting {
        unsafe fn alloc(&self, l: Layout) -> *mut u8 {
            LIVE.fetch_add(1, Ordering::Relaxed);
            System.alloc(l)
        }
        unsafe fn alloc_zeroed(&self, l: Layout) -> *mut u8 {
            LIVE.fetch_add(1, Ordering::Relaxed);
            System.alloc_zeroed(l)
        }
        unsafe fn dealloc(&self, p: *mut u8, l: Layout) {
            LIVE.fetch_sub(1, Ordering::Relaxed);
            System.dealloc(p, l)
        }
        unsafe fn realloc(&self, p: *mut u8, l: Layout, n: usize) -> *mut u8 {
            System.realloc(p, l, n)
        }
    }
    pub fn live() -> isize {
        LIVE.load(Ordering::Relaxed)
    }
    /// allocate and release blocks of the sizes the interpreter uses, filled with a pattern: memory the interpreter has
    /// released is overwritten, so an object that was freed while still referenced reads as garbage
    pub fn scribble() {
        let mut keep: Vec<Vec<u8>> = Vec::with_capacity(256);
        for round in 0..4 {
            for size in [8usize, 16, 24, 32, 40, 48, 64, 96] {
                for _ in 0..8 {
                    keep.push(vec![0xA5u8 ^ round as u8; size]);
                }
            }
        }
        std::hint::black_box(&keep);
    }
}

#[cfg(nlverif)]
pub mod __verif_dump {
    use crate::ast::*;
    use crate::builtins;
    use crate::compiler::{Bytecode, Compiler, OpCode};
    use crate::object::{Error, Object, Type};
    use crate::parser::parse;
    use crate::vm::VM;
    use std::fmt::Write;

    pub fn jstr(s: &str) -> String {
        let mut o = String::with_capacity(s.len() + 2);
        o.push('"');
        for c in s.chars() {
            match c {
                '"' => o.push_str("\\\""),
                '\\' => o.push_str("\\\\"),
                '\n' => o.push_str("\\n"),
                '\r' => o.push_str("\\r"),
                '\t' => o.push_str("\\t"),
                c if (c as u32) < 0x20 => {
                    write!(o, "\\u{:04x}", c as u32).unwrap();
                }
                c => o.push(c),
            }
        }
        o.push('"');
        o
    }

    fn block(b: &[Stmt]) -> String {
        let v: Vec<String> = b.iter().map(stmt).collect();
        format!("[{}]", v.join(","))
    }

    fn stmt(s: &Stmt) -> String {
        match s {
            Stmt::Let(n, e) => format!("{{\"s\":\"let\",\"name\":{},\"value\":{}}}", jstr(n), expr(e)),
            Stmt::Return(e) => format!("{{\"s\":\"return\",\"value\":{}}}", expr(e)),
            Stmt::Expr(e) => format!("{{\"s\":\"expr\",\"value\":{}}}", expr(e)),
            Stmt::Block(b) => format!("{{\"s\":\"block\",\"body\":{}}}", block(b)),
            Stmt::Break => "{\"s\":\"break\"}".to_string(),
            Stmt::Continue => "{\"s\":\"continue\"}".to_string(),
        }
    }

    fn expr(e: &Expr) -> String {
        match e {
            Expr::Infix { left, operator, right } => format!(
                "{{\"e\":\"infix\",\"op\":\"{:?}\",\"left\":{},\"right\":{}}}",
                operator, expr(left), expr(right)
            ),
            Expr::Prefix { operator, right } => format!(
                "{{\"e\":\"prefix\",\"op\":\"{:?}\",\"right\":{}}}",
                operator, expr(right)
            ),
            Expr::Int { value } => format!("{{\"e\":\"int\",\"v\":\"{}\"}}", value),
            Expr::Float { value } => format!(
                "{{\"e\":\"float\",\"bits\":\"{}\"}}",
                value.to_bits()
            ),
            Expr::Bool { value } => format!("{{\"e\":\"bool\",\"v\":{}}}", value),
            Expr::If { condition, consequence, alternative } => format!(
                "{{\"e\":\"if\",\"cond\":{},\"then\":{},\"else\":{}}}",
                expr(condition),
                block(consequence),
                match alternative { Some(a) => block(a), None => "null".to_string() }
            ),
            Expr::Identifier(n) => format!("{{\"e\":\"ident\",\"name\":{}}}", jstr(n)),
            Expr::Function { name, parameters, body } => {
                let ps: Vec<String> = parameters.iter().map(|p| jstr(p)).collect();
                format!(
                    "{{\"e\":\"func\",\"name\":{},\"params\":[{}],\"body\":{}}}",
                    jstr(name), ps.join(","), block(body)
                )
            }
            Expr::Call { left, arguments } => {
                let a: Vec<String> = arguments.iter().map(expr).collect();
                format!("{{\"e\":\"call\",\"callee\":{},\"args\":[{}]}}", expr(left), a.join(","))
            }
            Expr::Assign { left, right } => format!(
                "{{\"e\":\"assign\",\"left\":{},\"right\":{}}}", expr(left), expr(right)
            ),
            Expr::String { value } => format!("{{\"e\":\"str\",\"v\":{}}}", jstr(value)),
            Expr::Array { values } => {
                let a: Vec<String> = values.iter().map(expr).collect();
                format!("{{\"e\":\"array\",\"values\":[{}]}}", a.join(","))
            }
            Expr::Index { left, index } => format!(
                "{{\"e\":\"index\",\"left\":{},\"index\":{}}}", expr(left), expr(index)
            ),
            Expr::While { condition, body } => format!(
                "{{\"e\":\"while\",\"cond\":{},\"body\":{}}}", expr(condition), block(body)
            ),
        }
    }

    /// Structure of a value, walked through the accessors (depth-limited against cycles)
    pub fn value(o: Object, depth: usize) -> String {
        match o.tag() {
            Type::Null => "{\"t\":\"null\"}".to_string(),
            Type::Bool => format!("{{\"t\":\"bool\",\"v\":{}}}", o.as_bool()),
            Type::Int => format!("{{\"t\":\"int\",\"v\":\"{}\"}}", o.as_int()),
            Type::Function => {
                let [ip, nl] = o.as_function();
                format!("{{\"t\":\"func\",\"ip\":{},\"nl\":{},\"arity\":{}}}", ip, nl, o.function_arity())
            }
            Type::Float => format!("{{\"t\":\"float\",\"bits\":\"{}\"}}", o.as_f64().to_bits()),
            Type::String => format!("{{\"t\":\"str\",\"v\":{}}}", jstr(o.as_str())),
            Type::Array => {
                if depth == 0 {
                    return "{\"t\":\"arr\",\"cut\":true}".to_string();
                }
                let a: Vec<String> = o.as_vec().iter().map(|x| value(*x, depth - 1)).collect();
                format!("{{\"t\":\"arr\",\"v\":[{}]}}", a.join(","))
            }
        }
    }

    pub fn errkind(e: &Error) -> &'static str {
        match e {
            Error::TypeError(_) => "TypeError",
            Error::SyntaxError(_) => "SyntaxError",
            Error::ReferenceError(_) => "ReferenceError",
            Error::IndexError(_) => "IndexError",
            Error::ArgumentError(_) => "ArgumentError",
        }
    }

    fn errjson(stage: &str, e: &Error) -> String {
        let msg = match e {
            Error::TypeError(m) | Error::SyntaxError(m) | Error::ReferenceError(m)
            | Error::IndexError(m) | Error::ArgumentError(m) => m,
        };
        format!("{{\"stage\":\"{}\",\"kind\":\"{}\",\"msg\":{}}}", stage, errkind(e), jstr(msg))
    }

    pub fn bytecode(code: &Bytecode) -> String {
        let ins: Vec<String> = code.instructions.iter().map(|b| b.to_string()).collect();
        let cs: Vec<String> = code.constants.iter().map(|c| value(*c, 4)).collect();
        format!("{{\"instructions\":[{}],\"constants\":[{}]}}", ins.join(","), cs.join(","))
    }

    /// Opcode numbering, operand widths and builtin numbering, read from the real crate
    pub fn optable() -> String {
        let mut ops = Vec::new();
        let mut b: u8 = 0;
        loop {
            let op = OpCode::from(b);
            let w: Vec<String> = crate::compiler::__verif_c::operands(op).iter().map(|x| x.to_string()).collect();
            ops.push(format!("{{\"name\":\"{}\",\"code\":{},\"operands\":[{}]}}", op, b, w.join(",")));
            if op == OpCode::Halt {
                break;
            }
            b += 1;
        }
        let mut bs = Vec::new();
        for name in ["print", "type", "bool", "float", "int", "string", "lengte"] {
            if let Some(x) = builtins::resolve(name) {
                bs.push(format!("{{\"name\":\"{}\",\"code\":{}}}", name, x as u8));
            }
        }
        format!("{{\"opcodes\":[{}],\"builtins\":[{}]}}", ops.join(","), bs.join(","))
    }

    /// parse + compile with a fresh compiler: AST and bytecode, or the failing stage
    pub fn dump(src: &str) -> String {
        let ast = match parse(src) {
            Ok(a) => a,
            Err(e) => return format!("{{\"error\":{}}}", errjson("parse", &e)),
        };
        let astj = block(&ast);
        match Compiler::new().compile_ast(&ast) {
            Ok(code) => format!("{{\"ast\":{},\"code\":{}}}", astj, bytecode(&code)),
            Err(e) => format!("{{\"ast\":{},\"error\":{}}}", astj, errjson("compile", &e)),
        }
    }

    fn outcome(r: Result<Object, Error>) -> String {
        match r {
            Ok(o) => format!("{{\"ok\":{}}}", value(o, 6)),
            Err(e) => format!("{{\"error\":{}}}", errjson("run", &e)),
        }
    }

    /// The real `eval`, with output captured; panics are caught and reported.
    /// As with the public `eval`, the machine (and its collector) is gone before the result is looked at; the result is then
    /// released the way a caller would (Object::free_recursive) and the heap ledger is audited: "leak" = blocks still allocated
    /// after everything the evaluation created has been dropped (0 expected; negative = something was released twice).
    pub fn eval_json(src: &str) -> String {
        let _ = crate::__verif_io::take();
        let live0 = crate::__verif_heap::live();
        let s = src.to_string();
        let r = std::panic::catch_unwind(move || {
            let s = s;
            // same three steps as crate::eval, but the failing stage is recorded
            let ast = match parse(&s) {
                Ok(a) => a,
                Err(e) => return format!("{{\"error\":{}}}", errjson("parse", &e)),
            };
            let code = match Compiler::new().compile_ast(&ast) {
                Ok(c) => c,
                Err(e) => return format!("{{\"error\":{}}}", errjson("compile", &e)),
            };
            let res = {
                let mut vm = VM::new();
                vm.run(code)
                // the machine and its collector are dropped here
            };
            crate::__verif_heap::scribble();
            let result_object = res.as_ref().ok().copied();
            let j = outcome(res);
            if let Some(o) = result_object {
                o.free_recursive();
            }
            j
        });
        let out = crate::__verif_io::take();
        match r {
            Ok(j) => {
                let still = (j.capacity() > 0) as isize + (out.capacity() > 0) as isize;
                let leak = crate::__verif_heap::live() - live0 - still;
                format!("{{\"result\":{},\"output\":{},\"leak\":{}}}", j, jstr(&out), leak)
            }
            Err(p) => {
                let msg = if let Some(s) = p.downcast_ref::<&str>() { s.to_string() }
                    else if let Some(s) = p.downcast_ref::<String>() { s.clone() } else { "?".to_string() };
                format!("{{\"result\":{{\"panic\":{}}},\"output\":{}}}", jstr(&msg), jstr(&out))
            }
        }
    }

    /// Real parse + compile + run on a fresh machine, then the machine's stack / frame depth at the end
    pub fn probe_json(src: &str) -> String {
        let _ = crate::__verif_io::take();
        let s = src.to_string();
        let r = std::panic::catch_unwind(move || {
            let ast = match parse(&s) { Ok(a) => a, Err(_) => return "null".to_string() };
            let code = match Compiler::new().compile_ast(&ast) { Ok(c) => c, Err(_) => return "null".to_string() };
            let mut vm = VM::new();
            let r = vm.run(code);
            let (sl, fl, gl) = crate::vm::__verif_vm::probe(&vm);
            format!("{{\"stack_len\":{},\"frames_len\":{},\"globals_len\":{},\"ok\":{}}}", sl, fl, gl, r.is_ok())
        });
        let _ = crate::__verif_io::take();
        match r {
            Ok(j) => format!("{{\"probe\":{}}}", j),
            Err(_) => "{\"probe\":null,\"panic\":true}".to_string(),
        }
    }

    /// The public `eval` itself (lib.rs:16-20), output captured
    pub fn eval_public_json(src: &str) -> String {
        let _ = crate::__verif_io::take();
        let s = src.to_string();
        let r = std::panic::catch_unwind(move || outcome(crate::eval(&s)));
        let out = crate::__verif_io::take();
        match r {
            Ok(j) => format!("{{\"result\":{},\"output\":{}}}", j, jstr(&out)),
            Err(_) => format!("{{\"result\":{{\"panic\":\"?\"}},\"output\":{}}}", jstr(&out)),
        }
    }

    /// A retained session: ONE compiler and ONE machine, lines fed one by one (as the REPL does).
    /// With `run == false` only the bytecode of each line is dumped (for the symbolic executor).
    pub fn session(lines: &[&str], run: bool) -> String {
        let mut compiler = Compiler::new();
        let mut vm = VM::new();
        let mut res = Vec::new();
        for line in lines {
            let _ = crate::__verif_io::take();
            let ast = match parse(line) {
                Ok(a) => a,
                Err(e) => {
                    res.push(format!("{{\"error\":{}}}", errjson("parse", &e)));
                    continue;
                }
            };
            let astj = block(&ast);
            let code = match compiler.compile_ast(&ast) {
                Ok(c) => c,
                Err(e) => {
                    res.push(format!("{{\"ast\":{},\"error\":{}}}", astj, errjson("compile", &e)));
                    continue;
                }
            };
            let cj = bytecode(&code);
            if run {
                let vmr = &mut vm;
                let pr = std::panic::catch_unwind(std::panic::AssertUnwindSafe(move || outcome(vmr.run(code))));
                let out = crate::__verif_io::take();
                match pr {
                    Ok(r) => res.push(format!("{{\"ast\":{},\"code\":{},\"result\":{},\"output\":{}}}", astj, cj, r, jstr(&out))),
                    Err(_) => {
                        // the machine panicked: the session ends here
                        res.push(format!("{{\"ast\":{},\"code\":{},\"result\":{{\"panic\":\"?\"}},\"output\":{}}}", astj, cj, jstr(&out)));
                        break;
                    }
                }
            } else {
                res.push(format!("{{\"ast\":{},\"code\":{}}}", astj, cj));
            }
        }
        format!("[{}]", res.join(","))
    }

    /// stdin protocol: records separated by NUL; first line of a record is the command
    pub fn main() {
        use std::io::Read;
        let args: Vec<String> = std::env::args().collect();
        if args.len() > 1 && args[1] == "optable" {
            println!("{}", optable());
            return;
        }
        let mut input = String::new();
        std::io::stdin().read_to_string(&mut input).unwrap();
        // silence the default panic message; outcomes are reported as JSON
        std::panic::set_hook(Box::new(|_| {}));
        // one-time allocations (thread-local output buffer, stdout, panic machinery) happen before any ledger is read
        let _ = eval_json("print(1); stel a = [1.5, \"x\"]; a[5]");
        let _ = std::panic::catch_unwind(|| panic!("warm-up"));
        let stdout = std::io::stdout();
        for rec in input.split('\u{0}') {
            if rec.is_empty() {
                continue;
            }
            let (cmd, body) = match rec.find('\n') {
                Some(p) => (&rec[..p], &rec[p + 1..]),
                None => (rec, ""),
            };
            let out = match cmd {
                "dump" => dump(body),
                "eval" => eval_json(body),
                "evalpub" => eval_public_json(body),
                "probe" => probe_json(body),
                "session" | "sessiondump" => {
                    let lines: Vec<&str> = body.split('\u{1}').collect();
                    session(&lines, cmd == "session")
                }
                _ => "{\"error\":\"unknown command\"}".to_string(),
            };
            use std::io::Write as _;
            let mut l = stdout.lock();
            writeln!(l, "{}", out).unwrap();
            l.flush().unwrap();
        }
    }
}
