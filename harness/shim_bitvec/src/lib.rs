//! Overlay-only MODEL of the `bitvec` crate (used by the gc.rs proof harnesses only).
//! The subset of the API that gc.rs uses, implemented over Vec<bool>.  The real crate packs the bits and encodes
//! bit positions inside pointers, which CBMC cannot digest; that bitvec implements a vector of bits correctly is
//! part of the trusted base of C03/C04 (stated in the evidence).
pub mod prelude {
    pub struct BitVec {
        bits: Vec<bool>,
    }

    pub struct IterZeros<'a> {
        bits: &'a [bool],
        front: usize,
        back: usize,
    }

    impl<'a> Iterator for IterZeros<'a> {
        type Item = usize;
        fn next(&mut self) -> Option<usize> {
            while self.front < self.back {
                let i = self.front;
                self.front += 1;
                if !self.bits[i] {
                    return Some(i);
                }
            }
            None
        }
    }

    impl<'a> DoubleEndedIterator for IterZeros<'a> {
        fn next_back(&mut self) -> Option<usize> {
            while self.back > self.front {
                self.back -= 1;
                if !self.bits[self.back] {
                    return Some(self.back);
                }
            }
            None
        }
    }

    impl BitVec {
        pub fn new() -> Self {
            BitVec { bits: Vec::new() }
        }
        pub fn reserve(&mut self, _additional: usize) {}
        pub fn clear(&mut self) {
            self.bits.clear()
        }
        pub fn resize(&mut self, new_len: usize, value: bool) {
            while self.bits.len() > new_len {
                self.bits.pop();
            }
            while self.bits.len() < new_len {
                self.bits.push(value);
            }
        }
        pub fn truncate(&mut self, len: usize) {
            while self.bits.len() > len {
                self.bits.pop();
            }
        }
        pub fn len(&self) -> usize {
            self.bits.len()
        }
        pub fn iter_zeros(&self) -> IterZeros<'_> {
            IterZeros { bits: &self.bits, front: 0, back: self.bits.len() }
        }
        /// # Safety
        /// index < len (checked here: an out-of-range index is exactly what the harnesses must catch)
        pub unsafe fn get_unchecked(&self, index: usize) -> bool {
            self.bits[index]
        }
        /// # Safety
        /// index < len (checked here)
        pub unsafe fn set_unchecked(&mut self, index: usize, value: bool) {
            self.bits[index] = value;
        }
    }
}
