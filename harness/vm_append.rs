
// ===== appended by /verif (overlay only): read-only probe of the machine's private state after a run =====
#[cfg(nlverif)]
pub(crate) mod __verif_vm {
    use super::*;
    pub fn probe(vm: &VM) -> (usize, usize, usize) {
        (vm.stack.len(), vm.frames.len(), vm.globals.len())
    }
}
