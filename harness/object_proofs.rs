
// ===== appended by /verif (overlay only): Kani proof harnesses for object.rs (C15, C06, C05) =====
#[cfg(kani)]
pub(crate) mod __verif_k {
    use super::*;

    /// stub for `alloc::fmt::format`: error *messages* are outside every property (DESIGN 4.3-4)
    pub fn fmt_stub(_: std::fmt::Arguments<'_>) -> RString {
        RString::new()
    }
    /// stub for GC::trace / maybe_trace / untrace in harnesses that are not about collection: objects leak in the model
    pub fn gc_trace_stub(_gc: &mut GC, _o: Object) {}

    pub const NSTR: u8 = 8;
    /// literal table: empty, ASCII, 2-, 3- and 4-byte code points, shared prefixes
    pub fn str_of(i: u8) -> &'static str {
        match i {
            0 => "",
            1 => "a",
            2 => "b",
            3 => "ab",
            4 => "é",
            5 => "aé",
            6 => "€",
            _ => "🇳",
        }
    }
    pub fn mk_str(i: u8) -> Object {
        match i {
            0 => String::from_string(RString::from("")),
            1 => String::from_string(RString::from("a")),
            2 => String::from_string(RString::from("b")),
            3 => String::from_string(RString::from("ab")),
            4 => String::from_string(RString::from("é")),
            5 => String::from_string(RString::from("aé")),
            6 => String::from_string(RString::from("€")),
            _ => String::from_string(RString::from("🇳")),
        }
    }

    pub fn mk_text(t: &str) -> Object {
        String::from_string(RString::from(t))
    }

    /// reference model of a value
    #[derive(Clone, Copy, PartialEq)]
    pub enum M {
        Null,
        Bool(bool),
        Int(isize),
        Func(u32, u16, u8),
        Float(u64),
        Str(u8),
        Arr(u8),
    }

    impl M {
        pub fn ty(&self) -> u8 {
            match self {
                M::Null => 0,
                M::Int(_) => 1,
                M::Bool(_) => 2,
                M::Func(..) => 3,
                M::Float(_) => 4,
                M::Str(_) => 5,
                M::Arr(_) => 6,
            }
        }
    }

    pub fn any_int() -> isize {
        let v: isize = kani::any();
        kani::assume(v >= MIN_INT && v <= MAX_INT);
        v
    }

    /// an arbitrary immediate (null, bool, 61-bit int, function descriptor) with its model
    pub fn arb_imm() -> (Object, M) {
        let k: u8 = kani::any();
        match k {
            0 => (Object::null(), M::Null),
            1 => {
                let b: bool = kani::any();
                (Object::bool(b), M::Bool(b))
            }
            2 => {
                let v = any_int();
                (Object::int(v), M::Int(v))
            }
            _ => {
                let ip: u32 = kani::any();
                let nl: u16 = kani::any();
                let ar: u8 = kani::any();
                (Object::function_with_arity(ip, nl, ar), M::Func(ip, nl, ar))
            }
        }
    }

    /// an arbitrary scalar, text or function value
    pub fn arb_scalar() -> (Object, M) {
        let k: u8 = kani::any();
        match k {
            0 => {
                let bits: u64 = kani::any();
                (Float::from_f64(f64::from_bits(bits)), M::Float(bits))
            }
            1 => {
                let i: u8 = kani::any();
                kani::assume(i < NSTR);
                (mk_str(i), M::Str(i))
            }
            _ => arb_imm(),
        }
    }

    /// any value of any of the seven types (arrays: length 0..=2 of immediates)
    pub fn arb_obj() -> (Object, M) {
        let k: u8 = kani::any();
        if k == 0 {
            let n: u8 = kani::any();
            kani::assume(n <= 2);
            let mut v = Vec::new();
            if n >= 1 {
                v.push(arb_imm().0);
            }
            if n >= 2 {
                v.push(arb_imm().0);
            }
            (Array::from_vec(v), M::Arr(n))
        } else {
            arb_scalar()
        }
    }

    pub fn word(o: Object) -> usize {
        o.0 as usize
    }
    pub fn from_word(w: usize) -> Object {
        Object(w as *mut u8)
    }

    pub fn ty_of(o: Object) -> u8 {
        (o.0 as usize & TAG_MASK) as u8
    }

    // ------------------------------------------------------------------ C15
    #[kani::proof]
    fn c15_int_roundtrip() {
        let v = any_int();
        let o = Object::int(v);
        assert!(o.tag() == Type::Int);
        assert!(o.as_int() == v);
        assert!(!o.is_heap_allocated());
        kani::cover!(v == MIN_INT);
        kani::cover!(v == MAX_INT);
        kani::cover!(v == -1);
    }

    #[kani::proof]
    fn c15_bool_null_roundtrip() {
        let b: bool = kani::any();
        let o = Object::bool(b);
        assert!(o.tag() == Type::Bool);
        assert!(o.as_bool() == b);
        assert!(!o.is_heap_allocated());
        let n = Object::null();
        assert!(n.tag() == Type::Null);
        assert!(!n.is_heap_allocated());
        kani::cover!(b);
        kani::cover!(!b);
    }

    #[kani::proof]
    fn c15_function_roundtrip() {
        let ip: u32 = kani::any();
        let nl: u16 = kani::any();
        let ar: u8 = kani::any();
        let o = Object::function_with_arity(ip, nl, ar);
        assert!(o.tag() == Type::Function);
        let [a, b] = o.as_function();
        assert!(a == ip);
        assert!(b == nl as u32);
        assert!(o.function_arity() == ar);
        assert!(!o.is_heap_allocated());
        let p = Object::function(ip, nl);
        assert!(p.tag() == Type::Function && p.as_function() [0] == ip && p.as_function()[1] == nl as u32 && p.function_arity() == 0);
        kani::cover!(ip == u32::MAX && nl == u16::MAX && ar == u8::MAX);
    }

    #[kani::proof]
    fn c15_float_roundtrip() {
        let bits: u64 = kani::any();
        let o = Float::from_f64(f64::from_bits(bits));
        assert!(o.tag() == Type::Float);
        assert!(o.is_heap_allocated());
        assert!(o.as_f64().to_bits() == bits);
        // the tag lives in the alignment bits of the allocation: the address is recoverable
        assert!(o.as_ptr() as usize & TAG_MASK == 0);
        assert!(o.0 as usize == (o.as_ptr() as usize | Type::Float as usize));
        kani::cover!(f64::from_bits(bits).is_nan());
        kani::cover!(bits == 0x8000_0000_0000_0000);
        o.free();
    }

    #[kani::proof]
    #[kani::unwind(8)]
    fn c15_string_roundtrip() {
        let i: u8 = kani::any();
        kani::assume(i < NSTR);
        let o = mk_str(i);
        assert!(o.tag() == Type::String);
        assert!(o.is_heap_allocated());
        let s = o.as_str();
        let e = str_of(i);
        assert!(s.len() == e.len());
        let (sb, eb) = (s.as_bytes(), e.as_bytes());
        let mut j = 0;
        while j < eb.len() {
            assert!(sb[j] == eb[j]);
            j += 1;
        }
        assert!(o.as_ptr() as usize & TAG_MASK == 0);
        kani::cover!(i == 7);
        kani::cover!(i == 0);
        o.free();
    }

    #[kani::proof]
    #[kani::unwind(6)]
    fn c15_array_roundtrip() {
        let n: usize = kani::any();
        kani::assume(n <= 3);
        let mut v = Vec::new();
        let mut ms = [M::Null; 3];
        let mut j = 0;
        while j < n {
            let (o, m) = arb_imm();
            v.push(o);
            ms[j] = m;
            j += 1;
        }
        let o = Array::from_vec(v);
        assert!(o.tag() == Type::Array);
        assert!(o.is_heap_allocated());
        assert!(o.as_ptr() as usize & TAG_MASK == 0);
        let r = o.as_vec();
        assert!(r.len() == n);
        let mut j = 0;
        while j < n {
            let x = r[j];
            match ms[j] {
                M::Null => assert!(x.tag() == Type::Null),
                M::Bool(b) => assert!(x.tag() == Type::Bool && x.as_bool() == b),
                M::Int(i) => assert!(x.tag() == Type::Int && x.as_int() == i),
                M::Func(ip, nl, ar) => {
                    { let f = x.as_function(); assert!(x.tag() == Type::Function && f[0] == ip && f[1] == nl as u32 && x.function_arity() == ar) }
                }
                _ => (),
            }
            j += 1;
        }
        kani::cover!(n == 3);
        kani::cover!(n == 0);
        o.free();
    }

    /// type is reported correctly and is_heap_allocated <=> type >= Float, for every value shape
    #[kani::proof]
    #[kani::unwind(5)]
    fn c15_tag_of_every_shape() {
        let (o, m) = arb_obj();
        assert!(ty_of(o) == m.ty());
        assert!(o.is_heap_allocated() == (m.ty() >= 4));
        let t = o.tag();
        match m {
            M::Null => assert!(t == Type::Null),
            M::Bool(_) => assert!(t == Type::Bool),
            M::Int(_) => assert!(t == Type::Int),
            M::Func(..) => assert!(t == Type::Function),
            M::Float(_) => assert!(t == Type::Float),
            M::Str(_) => assert!(t == Type::String),
            M::Arr(_) => assert!(t == Type::Array),
        }
        kani::cover!(m.ty() == 6);
        kani::cover!(m.ty() == 4);
        kani::cover!(m.ty() == 3);
    }

    pub fn model_eq(a: M, b: M) -> bool {
        match (a, b) {
            (M::Null, M::Null) => true,
            (M::Bool(x), M::Bool(y)) => x == y,
            (M::Int(x), M::Int(y)) => x == y,
            (M::Func(a1, a2, a3), M::Func(b1, b2, b3)) => a1 == b1 && a2 == b2 && a3 == b3,
            (M::Float(x), M::Float(y)) => f64::from_bits(x) == f64::from_bits(y),
            (M::Str(x), M::Str(y)) => x == y, // table entries are pairwise different texts
            _ => false,
        }
    }

    /// two integers are equal exactly when they are the same integer (== and != through the operator wrappers too)
    #[kani::proof]
    #[kani::stub(std::fmt::format, fmt_stub)]
    fn c15_int_eq_exact() {
        let a = any_int();
        let b = any_int();
        let (x, y) = (Object::int(a), Object::int(b));
        assert!((x == y) == (a == b));
        assert!((x != y) == (a != b));
        kani::cover!(a != b && (a as f64) == (b as f64));
        kani::cover!(a == b);
    }

    /// two floats are equal exactly when IEEE says so
    #[kani::proof]
    fn c15_float_eq_exact() {
        let a: u64 = kani::any();
        let b: u64 = kani::any();
        let (x, y) = (Float::from_f64(f64::from_bits(a)), Float::from_f64(f64::from_bits(b)));
        assert!((x == y) == (f64::from_bits(a) == f64::from_bits(b)));
        kani::cover!(a != b && x == y);
        kani::cover!(a == b && x != y);
        std::mem::forget((x, y));
    }

    /// among scalars, text and functions: equal <=> same type and same content (NaN excepted by IEEE ==)
    #[kani::proof]
    #[kani::unwind(8)]
    fn c15_eq_pairwise() {
        let (a, ma) = arb_scalar();
        let (b, mb) = arb_scalar();
        let r = a == b;
        assert!(r == model_eq(ma, mb));
        kani::cover!(r && ma.ty() == 5);
        kani::cover!(r && ma.ty() == 4);
        kani::cover!(r && ma.ty() == 3);
        kani::cover!(!r && ma.ty() == mb.ty() && ma.ty() == 1);
        kani::cover!(!r && ma.ty() != mb.ty());
    }

    // ------------------------------------------------------------------ C06: integers
    fn in_range(x: i128) -> bool {
        x >= MIN_INT as i128 && x <= MAX_INT as i128
    }

    macro_rules! int_arith_harness {
        ($name:ident, $method:ident, $exact:expr, $needs_nonzero:expr) => {
            #[kani::proof]
            #[kani::stub(std::fmt::format, fmt_stub)]
            #[kani::stub(crate::gc::GC::trace, gc_trace_stub)]
            fn $name() {
                let a = any_int();
                let b = any_int();
                let mut gc = std::mem::ManuallyDrop::new(GC::new());
                let gc: &mut GC = &mut gc;
                let r = Object::int(a).$method(Object::int(b), gc);
                let f: fn(i128, i128) -> i128 = $exact;
                if $needs_nonzero && b == 0 {
                    assert!(r.is_err());
                } else {
                    let e = f(a as i128, b as i128);
                    if in_range(e) {
                        match r {
                            Ok(o) => assert!(o.tag() == Type::Int && o.as_int() as i128 == e),
                            Err(_) => assert!(false, "exact result in range but error reported"),
                        }
                    } else {
                        assert!(r.is_err());
                    }
                    kani::cover!(!in_range(e));
                    kani::cover!(in_range(e) && a < 0 && b > 0);
                }
                kani::cover!(b == 0);
                std::mem::forget(r);
            }
        };
    }
    int_arith_harness!(c06_int_add, add, |a, b| a + b, false);
    int_arith_harness!(c06_int_sub, sub, |a, b| a - b, false);

    /// bounds for symbolic x symbolic multiplication / division (bit-blasting cost), stated in evidence
    pub const MULDIV_BITS: u32 = 16;
    fn small_int() -> isize {
        let v: isize = kani::any();
        kani::assume(v >= -(1 << MULDIV_BITS) && v <= (1 << MULDIV_BITS));
        v
    }

    /// mul: exactness for |a|,|b| <= 2^16 (symbolic x symbolic) ...
    #[kani::proof]
    #[kani::stub(std::fmt::format, fmt_stub)]
    #[kani::stub(crate::gc::GC::trace, gc_trace_stub)]
    fn c06_int_mul_small() {
        let a = small_int();
        let b = small_int();
        let mut gc = std::mem::ManuallyDrop::new(GC::new());
                let gc: &mut GC = &mut gc;
        let r = Object::int(a).mul(Object::int(b), gc);
        match r {
            Ok(o) => assert!(o.tag() == Type::Int && o.as_int() as i128 == a as i128 * b as i128),
            Err(_) => assert!(false),
        }
        kani::cover!(a < 0 && b < 0);
    }

    /// ... and full-width operands against a power-of-two / boundary multiplier (overflow detection at full width)
    #[kani::proof]
    #[kani::stub(std::fmt::format, fmt_stub)]
    #[kani::stub(crate::gc::GC::trace, gc_trace_stub)]
    fn c06_int_mul_pow2() {
        let a = any_int();
        let k: u32 = kani::any();
        kani::assume(k <= 60);
        let neg: bool = kani::any();
        let off: isize = kani::any();
        kani::assume(off >= -1 && off <= 1);
        let mut b: isize = (1isize << k) + off;
        if neg {
            b = -b;
        }
        kani::assume(b >= MIN_INT && b <= MAX_INT);
        let swap: bool = kani::any();
        let mut gc = std::mem::ManuallyDrop::new(GC::new());
                let gc: &mut GC = &mut gc;
        let r = if swap {
            Object::int(b).mul(Object::int(a), gc)
        } else {
            Object::int(a).mul(Object::int(b), gc)
        };
        // exact product of a 61-bit and a (2^k +- 1) value, computed with shifts only
        let sh: i128 = (a as i128) << k;
        let mut e: i128 = sh + (a as i128) * (off as i128);
        if neg {
            e = -e;
        }
        if in_range(e) {
            match r {
                Ok(o) => assert!(o.tag() == Type::Int && o.as_int() as i128 == e),
                Err(_) => assert!(false),
            }
        } else {
            assert!(r.is_err());
        }
        kani::cover!(!in_range(e));
        kani::cover!(in_range(e) && k > 30);
    }

    /// operand bounds of the division harnesses (symbolic / symbolic division is a bit-blasting cost centre)
    /// mode 0: |a| <= 2^20, |b| <= 2^10 both symbolic (exactness of truncation, all sign combinations)
    /// mode 1: a full width, b in {-1, 0, 1}            (zero divisor, MIN_INT / -1 at full width)
    /// mode 2: a full width, b in {MIN_INT, MAX_INT}    (range ends)
    /// mode 3: both full width                           (attempted; reported 'not decided' when over the cap)
    fn div_operands(mode: u8) -> (isize, isize) {
        match mode {
            0 => {
                let a: isize = kani::any();
                let b: isize = kani::any();
                kani::assume(a >= -(1 << 20) && a <= (1 << 20));
                kani::assume(b >= -(1 << 10) && b <= (1 << 10));
                (a, b)
            }
            1 => {
                let b: isize = kani::any();
                kani::assume(b >= -1 && b <= 1);
                (any_int(), b)
            }
            2 => {
                let s: bool = kani::any();
                (any_int(), if s { MIN_INT } else { MAX_INT })
            }
            _ => (any_int(), any_int()),
        }
    }

    macro_rules! int_divrem_harness {
        ($name:ident, $method:ident, $oracle:ident, $full:expr) => {
            #[kani::proof]
            #[kani::stub(std::fmt::format, fmt_stub)]
            #[kani::stub(crate::gc::GC::trace, gc_trace_stub)]
            fn $name() {
                let (a, b) = div_operands($full);
                let mut gc = std::mem::ManuallyDrop::new(GC::new());
                let gc: &mut GC = &mut gc;
                let r = Object::int(a).$method(Object::int(b), gc);
                if b == 0 {
                    assert!(r.is_err());
                } else {
                    // oracle: the machine's truncating (toward zero) signed division / remainder
                    let e = a.$oracle(b);
                    if e >= MIN_INT && e <= MAX_INT {
                        match r {
                            Ok(o) => assert!(o.tag() == Type::Int && o.as_int() == e),
                            Err(_) => assert!(false, "exact result in range but error reported"),
                        }
                    } else {
                        assert!(r.is_err());
                    }
                    // sanity of the oracle itself (sign and magnitude of a remainder)
                    kani::cover!($full == 1 || e < 0);
                }
                kani::cover!($full == 2 || b == 0);
                kani::cover!($full != 1 || (b == -1 && a == MIN_INT));
                kani::cover!(a < 0 && b != 0);
            }
        };
    }
    int_divrem_harness!(c06_int_div_small, div, wrapping_div, 0);
    int_divrem_harness!(c06_int_rem_small, rem, wrapping_rem, 0);
    int_divrem_harness!(c06_int_div_unit, div, wrapping_div, 1);
    int_divrem_harness!(c06_int_rem_unit, rem, wrapping_rem, 1);
    int_divrem_harness!(c06_int_div_ends, div, wrapping_div, 2);
    int_divrem_harness!(c06_int_rem_ends, rem, wrapping_rem, 2);
    int_divrem_harness!(c06_int_div_full, div, wrapping_div, 3);
    int_divrem_harness!(c06_int_rem_full, rem, wrapping_rem, 3);

    /// multiplier / divisor constants for the full-width harnesses: small primes, a power of ten, both signs,
    /// a large power of two and both range ends
    fn const_operand(sel: u8) -> isize {
        match sel {
            0 => 2,
            1 => -3,
            2 => 7,
            3 => 10,
            4 => -10,
            5 => 1 << 30,
            6 => MAX_INT,
            _ => MIN_INT,
        }
    }

    macro_rules! int_const_harness {
        ($name:ident, $method:ident, $oracle:ident, $swap:expr, $nz:expr) => {
            #[kani::proof]
            #[kani::stub(std::fmt::format, fmt_stub)]
            #[kani::stub(crate::gc::GC::trace, gc_trace_stub)]
            fn $name() {
                let a = any_int();
                let sel: u8 = kani::any();
                kani::assume(sel <= 7);
                let c = const_operand(sel);
                let mut gc = std::mem::ManuallyDrop::new(GC::new());
                let gc: &mut GC = &mut gc;
                let (l, r) = if $swap { (c, a) } else { (a, c) };
                let res = Object::int(l).$method(Object::int(r), gc);
                if $nz && r == 0 {
                    assert!(res.is_err());
                } else {
                    let e = (l as i128).$oracle(r as i128);
                    if in_range(e) {
                        match res {
                            Ok(o) => assert!(o.tag() == Type::Int && o.as_int() as i128 == e),
                            Err(_) => assert!(false, "exact result in range but error reported"),
                        }
                    } else {
                        assert!(res.is_err());
                    }
                    kani::cover!(!in_range(e) || stringify!($method) != "mul");
                    kani::cover!(in_range(e) && e < 0 && sel == 3);
                }
                kani::cover!(sel == 7);
            }
        };
    }
    int_const_harness!(c06_int_mul_const, mul, wrapping_mul, false, false);
    int_const_harness!(c06_int_mul_const_l, mul, wrapping_mul, true, false);
    int_const_harness!(c06_int_div_const, div, wrapping_div, false, true);
    int_const_harness!(c06_int_rem_const, rem, wrapping_rem, false, true);
    int_const_harness!(c06_int_div_const_l, div, wrapping_div, true, true);
    int_const_harness!(c06_int_rem_const_l, rem, wrapping_rem, true, true);

    macro_rules! int_cmp_harness {
        ($name:ident, $method:ident, $op:tt) => {
            #[kani::proof]
            #[kani::stub(std::fmt::format, fmt_stub)]
            fn $name() {
                let a = any_int();
                let b = any_int();
                let mut gc = std::mem::ManuallyDrop::new(GC::new());
                let gc: &mut GC = &mut gc;
                match Object::int(a).$method(Object::int(b), gc) {
                    Ok(o) => assert!(o.tag() == Type::Bool && o.as_bool() == (a $op b)),
                    Err(_) => assert!(false),
                }
                kani::cover!(a < 0 && b > 0);
                kani::cover!(a == b);
                kani::cover!(a > 0 && b < 0);
            }
        };
    }
    int_cmp_harness!(c06_int_lt, lt, <);
    int_cmp_harness!(c06_int_lte, lte, <=);
    int_cmp_harness!(c06_int_gt, gt, >);
    int_cmp_harness!(c06_int_gte, gte, >=);
    int_cmp_harness!(c06_int_eq, eq, ==);
    int_cmp_harness!(c06_int_neq, neq, !=);

    // ------------------------------------------------------------------ C06: floats
    fn same_float(x: f64, y: f64) -> bool {
        (x.is_nan() && y.is_nan()) || x.to_bits() == y.to_bits()
    }

    macro_rules! float_arith_harness {
        ($name:ident, $method:ident, $op:tt) => {
            #[kani::proof]
            #[kani::stub(std::fmt::format, fmt_stub)]
            #[kani::stub(crate::gc::GC::trace, gc_trace_stub)]
            fn $name() {
                let x = f64::from_bits(kani::any());
                let y = f64::from_bits(kani::any());
                let mut gc = std::mem::ManuallyDrop::new(GC::new());
                let gc: &mut GC = &mut gc;
                let r = Float::from_f64(x).$method(Float::from_f64(y), gc);
                match r {
                    Ok(o) => assert!(o.tag() == Type::Float && same_float(o.as_f64(), x $op y)),
                    Err(_) => assert!(false),
                }
                kani::cover!(x.is_nan());
                kani::cover!(x.is_infinite() && y == 0.0);
            }
        };
    }
    float_arith_harness!(c06_float_add, add, +);
    float_arith_harness!(c06_float_sub, sub, -);
    float_arith_harness!(c06_float_mul, mul, *);
    float_arith_harness!(c06_float_div, div, /);

    macro_rules! float_cmp_harness {
        ($name:ident, $method:ident, $op:tt) => {
            #[kani::proof]
            #[kani::stub(std::fmt::format, fmt_stub)]
            fn $name() {
                let x = f64::from_bits(kani::any());
                let y = f64::from_bits(kani::any());
                let mut gc = std::mem::ManuallyDrop::new(GC::new());
                let gc: &mut GC = &mut gc;
                match Float::from_f64(x).$method(Float::from_f64(y), gc) {
                    Ok(o) => assert!(o.tag() == Type::Bool && o.as_bool() == (x $op y)),
                    Err(_) => assert!(false),
                }
                kani::cover!(x.is_nan());
                kani::cover!(x == 0.0 && y == 0.0 && x.to_bits() != y.to_bits());
            }
        };
    }
    float_cmp_harness!(c06_float_lt, lt, <);
    float_cmp_harness!(c06_float_lte, lte, <=);
    float_cmp_harness!(c06_float_gt, gt, >);
    float_cmp_harness!(c06_float_gte, gte, >=);
    float_cmp_harness!(c06_float_eq, eq, ==);
    float_cmp_harness!(c06_float_neq, neq, !=);

    /// the SAME object on both sides (`x == x`, a copy of a variable): still the IEEE answer - NaN is not equal to itself -
    /// for all six comparisons; and every other value equals itself
    #[kani::proof]
    #[kani::stub(std::fmt::format, fmt_stub)]
    fn c06_float_cmp_same_object() {
        let x = f64::from_bits(kani::any());
        let mut gc = std::mem::ManuallyDrop::new(GC::new());
        let gc: &mut GC = &mut gc;
        let a = Float::from_f64(x);
        let b = a; // the same heap object
        let want = [x == x, x != x, x < x, x <= x, x > x, x >= x];
        let got = [a.eq(b, gc), a.neq(b, gc), a.lt(b, gc), a.lte(b, gc), a.gt(b, gc), a.gte(b, gc)];
        let mut i = 0;
        while i < 6 {
            match &got[i] {
                Ok(o) => assert!(o.tag() == Type::Bool && o.as_bool() == want[i]),
                Err(_) => assert!(false),
            }
            i += 1;
        }
        assert!((a == b) == (x == x));
        kani::cover!(x.is_nan());
        kani::cover!(!x.is_nan());
    }

    #[kani::proof]
    #[kani::unwind(8)]
    fn c15_eq_reflexive() {
        let (a, ma) = arb_scalar();
        let b = a;
        assert!((a == b) == model_eq(ma, ma));
        kani::cover!(ma.ty() == 5);
        kani::cover!(ma.ty() == 3);
    }

    // ------------------------------------------------------------------ C06: strings
    /// independent lexicographic order on the UTF-8 bytes (== code point order)
    fn lex_cmp(a: &[u8], b: &[u8]) -> i8 {
        let mut i = 0;
        loop {
            if i == a.len() && i == b.len() {
                return 0;
            }
            if i == a.len() {
                return -1;
            }
            if i == b.len() {
                return 1;
            }
            if a[i] < b[i] {
                return -1;
            }
            if a[i] > b[i] {
                return 1;
            }
            i += 1;
        }
    }

    /// a string of 0..=2 symbolic ASCII bytes (content AND length symbolic)
    fn sym_ascii2() -> (Object, [u8; 2], usize) {
        let n: usize = kani::any();
        kani::assume(n <= 2);
        let b: [u8; 2] = kani::any();
        kani::assume(b[0] < 0x80 && b[1] < 0x80);
        let mut v: Vec<u8> = Vec::with_capacity(2);
        if n >= 1 {
            v.push(b[0]);
        }
        if n >= 2 {
            v.push(b[1]);
        }
        let s = unsafe { RString::from_utf8_unchecked(v) };
        (String::from_string(s), b, n)
    }

    fn check_cmp(k: u8, a: Object, b: Object, c: i8) {
        let mut gc = std::mem::ManuallyDrop::new(GC::new());
        let gc: &mut GC = &mut gc;
        let (r, e) = match k {
            0 => (a.lt(b, gc), c < 0),
            1 => (a.lte(b, gc), c <= 0),
            2 => (a.gt(b, gc), c > 0),
            3 => (a.gte(b, gc), c >= 0),
            4 => (a.eq(b, gc), c == 0),
            _ => (a.neq(b, gc), c != 0),
        };
        match r {
            Ok(o) => assert!(o.tag() == Type::Bool && o.as_bool() == e),
            Err(_) => assert!(false),
        }
    }

    /// all pairs of ASCII texts of length 0..=2, all six comparisons: lexicographic order
    #[kani::proof]
    #[kani::unwind(4)]
    #[kani::stub(std::fmt::format, fmt_stub)]
    fn c06_string_cmp_ascii2() {
        let (a, ba, na) = sym_ascii2();
        let (b, bb, nb) = sym_ascii2();
        let c = lex_cmp(&ba[..na], &bb[..nb]);
        let k: u8 = kani::any();
        kani::assume(k <= 5);
        check_cmp(k, a, b, c);
        kani::cover!(c < 0 && na == 2 && nb == 1);
        kani::cover!(c == 0 && na == 2);
        kani::cover!(c > 0 && na == 1 && nb == 2);
    }

    /// multi-byte texts (2-, 3-, 4-byte code points, shared prefixes): one fixed left operand per harness
    macro_rules! string_cmp_table {
        ($name:ident, $i:expr) => {
            #[kani::proof]
            #[kani::unwind(8)]
            #[kani::stub(std::fmt::format, fmt_stub)]
            fn $name() {
                let j: u8 = kani::any();
                kani::assume(j < NSTR);
                let c = lex_cmp(str_of($i).as_bytes(), str_of(j).as_bytes());
                let k: u8 = kani::any();
                kani::assume(k <= 5);
                check_cmp(k, mk_str($i), mk_str(j), c);
                kani::cover!(c < 0);
                kani::cover!(c == 0);
            }
        };
    }
    string_cmp_table!(c06_string_cmp_t4, 4);
    string_cmp_table!(c06_string_cmp_t5, 5);
    string_cmp_table!(c06_string_cmp_t6, 6);

    // ------------------------------------------------------------------ C06/C05: every type pair, every operator
    pub fn apply(k: u8, a: Object, b: Object, gc: &mut GC) -> Result<Object, Error> {
        match k {
            0 => a.add(b, gc),
            1 => a.sub(b, gc),
            2 => a.mul(b, gc),
            3 => a.div(b, gc),
            4 => a.rem(b, gc),
            5 => a.lt(b, gc),
            6 => a.lte(b, gc),
            7 => a.gt(b, gc),
            8 => a.gte(b, gc),
            9 => a.eq(b, gc),
            10 => a.neq(b, gc),
            11 => a.and(b, gc),
            _ => a.or(b, gc),
        }
    }

    /// operands of different or unsupported type are reported as TypeError, never answered, never a panic
    #[kani::proof]
    #[kani::unwind(8)]
    #[kani::stub(std::fmt::format, fmt_stub)]
    #[kani::stub(crate::gc::GC::trace, gc_trace_stub)]
    fn c06_cross_type_all_ops() {
        let (a, ma) = arb_obj();
        let (b, mb) = arb_obj();
        let k: u8 = kani::any();
        kani::assume(k <= 12);
        let (ta, tb) = (ma.ty(), mb.ty());
        // supported (operator, type) combinations; everything else must be a TypeError
        let arith = k <= 4;
        let order = k >= 5 && k <= 8;
        let equal = k == 9 || k == 10;
        let logic = k >= 11;
        let supported = ta == tb
            && ((arith && (ta == 1 || ta == 4))
                || (order && (ta == 1 || ta == 4 || ta == 5 || ta == 0 || ta == 2))
                || (equal && ta != 6)
                || (logic && ta == 2));
        kani::assume(!supported);
        let mut gc = std::mem::ManuallyDrop::new(GC::new());
                let gc: &mut GC = &mut gc;
        let r = apply(k, a, b, gc);
        match r {
            Err(Error::TypeError(_)) => (),
            _ => assert!(false, "unsupported operand types must give a TypeError"),
        }
        kani::cover!(ta == 6 && tb == 6 && k == 9);
        kani::cover!(ta == 3 && tb == 3 && k == 5);
        kani::cover!(ta == 1 && tb == 4 && k == 0);
        kani::cover!(ta == 5 && tb == 5 && k == 0);
    }

    #[kani::proof]
    #[kani::stub(std::fmt::format, fmt_stub)]
    fn c06_bool_logic_and_order() {
        let x: bool = kani::any();
        let y: bool = kani::any();
        let mut gc = std::mem::ManuallyDrop::new(GC::new());
                let gc: &mut GC = &mut gc;
        let (a, b) = (Object::bool(x), Object::bool(y));
        match a.and(b, gc) { Ok(o) => assert!(o.tag() == Type::Bool && o.as_bool() == (x && y)), Err(_) => assert!(false) }
        match a.or(b, gc) { Ok(o) => assert!(o.tag() == Type::Bool && o.as_bool() == (x || y)), Err(_) => assert!(false) }
        match a.eq(b, gc) { Ok(o) => assert!(o.as_bool() == (x == y)), Err(_) => assert!(false) }
        match a.neq(b, gc) { Ok(o) => assert!(o.as_bool() == (x != y)), Err(_) => assert!(false) }
        match a.lt(b, gc) { Ok(o) => assert!(o.as_bool() == (!x & y)), Err(_) => assert!(false) }
        let n = Object::null();
        match n.eq(n, gc) { Ok(o) => assert!(o.as_bool()), Err(_) => assert!(false) }
        kani::cover!(x && !y);
    }

    /// function descriptors: == is identity of (entry, locals)
    #[kani::proof]
    #[kani::stub(std::fmt::format, fmt_stub)]
    fn c06_function_eq() {
        let (i1, n1, i2, n2): (u32, u16, u32, u16) = (kani::any(), kani::any(), kani::any(), kani::any());
        let (a1, a2): (u8, u8) = (kani::any(), kani::any());
        let mut gc = std::mem::ManuallyDrop::new(GC::new());
                let gc: &mut GC = &mut gc;
        match Object::function_with_arity(i1, n1, a1).eq(Object::function_with_arity(i2, n2, a2), gc) {
            Ok(o) => assert!(o.as_bool() == (i1 == i2 && n1 == n2 && a1 == a2)),
            Err(_) => assert!(false),
        }
        kani::cover!(i1 == i2 && n1 != n2);
    }
}
