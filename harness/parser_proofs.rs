// ===== appended by /verif (overlay only): Kani proof harnesses for parser.rs (C08: what a string literal denotes) =====
// parser.rs is verbatim.  Only `Parser::parse_string_expression` (the decoder of the raw text between the quotes) is
// reached; the parser proper is outside what CBMC can execute (DESIGN.md 1).
#[cfg(kani)]
pub(crate) mod __verif_k {
    use super::*;

    pub fn slice_fail_stub(_s: &str, _b: usize, _e: usize) -> ! {
        panic!("str slice at a non-boundary / out of range")
    }

    /// Model of String::push that never re-allocates (CBMC's model of realloc with a symbolic size is what makes the
    /// un-stubbed decoder not finish: measured, 2 symbolic characters > 600 s; with this stub 3 characters = 60 s).
    /// The decoder reserves the length of the raw text, and decoding never lengthens a text, so the capacity always
    /// suffices; the stub ASSERTS that, it does not assume it.
    pub fn push_nogrow_stub(s: &mut std::string::String, ch: char) {
        let mut b = [0u8; 4];
        let w = ch.encode_utf8(&mut b).len();
        unsafe {
            let v = s.as_mut_vec();
            let l = v.len();
            assert!(l + w <= v.capacity(), "decoded text longer than the raw text");
            let mut i = 0;
            while i < w {
                std::ptr::write(v.as_mut_ptr().add(l + i), b[i]);
                i += 1;
            }
            v.set_len(l + w);
        }
    }

    /// reference: left to right; a backslash followed by one of `"` `\` `n` `t` denotes that character / newline / tab;
    /// every other character (a backslash before anything else included) denotes itself.  -> (bytes, length)
    fn ref_decode(raw: &[u8], n: usize) -> ([u8; 12], usize) {
        let mut out = [0u8; 12];
        let mut o = 0;
        let mut i = 0;
        while i < n {
            let b = raw[i];
            if b == b'\\' && i + 1 < n && (raw[i + 1] == b'"' || raw[i + 1] == b'\\' || raw[i + 1] == b'n' || raw[i + 1] == b't') {
                out[o] = match raw[i + 1] { b'n' => b'\n', b't' => b'\t', c => c };
                o += 1;
                i += 2;
            } else {
                out[o] = b;
                o += 1;
                i += 1;
            }
        }
        (out, o)
    }

    /// what the lexer can hand over: no unescaped quote inside, no unescaped backslash at the end
    fn is_raw_body(raw: &[u8], n: usize) -> bool {
        let mut esc = false;
        let mut i = 0;
        while i < n {
            if raw[i] == b'"' && !esc { return false; }
            esc = !esc && raw[i] == b'\\';
            i += 1;
        }
        !esc
    }

    /// one symbolic byte from the alphabet that matters to the decoder
    fn sym() -> u8 {
        let b: u8 = kani::any();
        kani::assume(b == b'\\' || b == b'"' || b == b'n' || b == b't' || b == b'a' || b == b' ');
        b
    }

    pub fn decode_case(prefix: &str, k: usize) {
        let p = prefix.as_bytes();
        // the length is enumerated, the characters are symbolic (a symbolic length makes the iterator's end pointer symbolic)
        let mut t = 0;
        while t <= k {
            let mut raw = [0u8; 12];
            raw[..p.len()].copy_from_slice(p);
            let mut i = 0;
            while i < t { raw[p.len() + i] = sym(); i += 1; }
            let n = p.len() + t;
            kani::assume(is_raw_body(&raw, n));
            let value = unsafe { std::str::from_utf8_unchecked(&raw[..n]) };
            let mut parser = Parser::new("");
            let e = parser.parse_string_expression(value);
            let (want, wn) = ref_decode(&raw, n);
            match e {
                Expr::String { value: got } => {
                    assert!(got.len() == wn, "decoded length");
                    let g = got.as_bytes();
                    let mut j = 0;
                    while j < wn { assert!(g[j] == want[j], "decoded character"); j += 1; }
                    if t == k { kani::cover!(wn <= n); }
                    std::mem::forget(got);
                }
                _ => assert!(false, "not a string expression"),
            }
            t += 1;
        }
    }

    macro_rules! decode_harness {
        ($name:ident, $unwind:expr, $k:expr, [$($p:expr),+ $(,)?]) => {
            #[kani::proof]
            #[kani::unwind($unwind)]
            #[kani::stub(core::str::slice_error_fail, slice_fail_stub)]
            #[kani::stub(std::string::String::push, push_nogrow_stub)]
            fn $name() {
                $( decode_case($p, $k); )+
            }
        };
    }
    // every raw body of up to 3 / 4 characters over the alphabet { \ " n t a space }
    decode_harness!(c08_decode_sym3, 8, 3, [""]);
    decode_harness!(c08_decode_sym4, 9, 4, [""]);
    // longer bodies: concrete starts that matter (escaped backslashes in a row, escape after an escaped backslash, an escaped
    // quote inside, non-ASCII text before the first escape, an unknown escape), then one symbolic character
    decode_harness!(c08_decode_prefixed, 12, 1, ["\\\\\\\\", "\\\\n", "a\\\"b", "\\x"]);
    decode_harness!(c08_decode_nonascii_before_escape, 12, 1, ["é\\t", "één\\n"]);
}
