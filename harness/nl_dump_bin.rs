// overlay-only binary: entry point of the native observation layer
#[global_allocator]
static LEDGER: nederlang::__verif_heap::Counting = nederlang::__verif_heap::Counting;

fn main() {
    nederlang::__verif_dump::main();
}
