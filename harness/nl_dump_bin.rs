// overlay-only binary: entry point of the native observation layer
fn main() {
    nederlang::__verif_dump::main();
}
