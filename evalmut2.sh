#!/bin/bash
# usage: evalmut2.sh <seeded dir with patch.diff> <check ids...>
# Same purpose as evalmut.sh but without touching /repo: the change is applied to a scratch worktree of /repo, the checks are
# pointed at it (NLV_REPO) with their own build cache and output directory, everything is removed afterwards.
M="$(cd "$1" && pwd)"; shift
id=$(basename "$M")
W=/tmp/wt/eval-$id-$$
OUT=/tmp/mutout/$id; mkdir -p $OUT
git -C /repo worktree add --detach "$W" HEAD >/dev/null 2>&1 || { echo "cannot create worktree"; exit 9; }
trap 'git -C /repo worktree remove --force "$W" >/dev/null 2>&1; rm -rf /tmp/mutcache/'$id'-'$$ EXIT
git -C "$W" apply "$M/patch.diff" || { echo "patch does not apply"; exit 9; }
export NLV_REPO="$W" NLV_CACHE=/tmp/mutcache/$id-$$ NLV_OUT=$OUT NLV_JOBS=${NLV_JOBS:-6}
for c in "$@"; do
  start=$(date +%s)
  (cd /verif && ./check $c > $OUT/$c.log 2>&1); rc=$?
  echo "== $id $c exit=$rc ($(( $(date +%s) - start ))s)"
  grep -E "^(VIOLATION|UNREPRODUCED|KNOWN|INCONCLUSIVE)|^  key=" $OUT/$c.log | cut -c1-300 | head -6
done
