"""Run skeleton families through nlsym on all cores; confirm candidates natively; return plain dicts."""
import multiprocessing as mp
import os
import time

from . import driver

_W = {}


def _init(bin_path, bin_release, opts):
    _W["native"] = driver.Native(bin_path, bin_release)
    _W["opts"] = opts


def _job(item):
    name, skel = item[0], item[1]
    variant = item[2] if len(item) > 2 else None
    nat = _W["native"]
    o = _W["opts"]
    ck = driver.SkeletonChecker(nat, max_steps=o["max_steps"], max_paths=o["max_paths"], pattern_limit=o["pattern_limit"],
                                solver_timeout_ms=o["solver_timeout_ms"], skeleton_budget_s=o["skeleton_budget_s"])
    t0 = time.time()
    try:
        if isinstance(skel, list):
            from . import session
            fs = session.check_session(ck, skel)
        else:
            fs = ck.check(skel) if variant is None else driver.check_pair(ck, skel, variant)
    except Exception as e:  # machinery failure: reported, never a pass
        import traceback
        return {"name": name, "skel": skel, "error": "%r\n%s" % (e, traceback.format_exc()[-1500:]), "stats": ck.stats, "findings": [], "samples": []}
    out = []
    seen = set()
    for f in fs:
        key = (f.kind, ''.join(c for c in f.detail if not c.isdigit())[:80])
        if f.kind == "session" and f.role.startswith("session:"):
            key = (f.kind, f.role)
        if key in seen:
            continue
        seen.add(key)
        if len(out) >= 6:
            break
        try:
            if isinstance(skel, list):
                from . import session
                session.confirm_session(nat, f)
            elif variant is None:
                driver.confirm(nat, f, profiles=("dev", "release"))
            else:
                driver.confirm_pair(nat, f)
        except Exception as e:
            f.confirmed = None
            f.native = {"why": ["replay failed: %r" % e]}
        j = f.to_json()
        j["name"] = name
        out.append(j)
    return {"name": name, "skel": skel, "stats": ck.stats, "findings": out, "samples": ck.samples[:1], "wall_s": round(time.time() - t0, 2),
            "witness_sample": ck.witness_log[:8]}


def run_families(items, opts=None, jobs=None, deadline=None):
    """items: [(name, skeleton)] -> (results, aggregate stats, native info)"""
    o = dict(max_steps=300, max_paths=128, pattern_limit=8, solver_timeout_ms=10000, skeleton_budget_s=40)
    o.update(opts or {})
    parent = driver.Native()
    rel = parent.overlay.build_native(release=True)
    jobs = jobs or int(os.environ.get("NLV_JOBS", "16"))
    results = []
    t0 = time.time()
    try:
        with mp.Pool(jobs, initializer=_init, initargs=(parent.bin, rel, o)) as pool:
            it = pool.imap_unordered(_job, items, chunksize=1)
            for r in it:
                results.append(r)
                if deadline and time.time() > deadline:
                    pool.terminate()
                    break
    finally:
        info = {"optable_opcodes": len(parent.optable["opcodes"]), "source_digest": parent.overlay.source_digest,
                "native_build_s": round(parent.overlay.native_build_s, 1)}
        parent.close()
    agg = {}
    for r in results:
        for k, v in r["stats"].items():
            agg[k] = agg.get(k, 0) + v
    agg["wall_s"] = round(time.time() - t0, 1)
    agg["skeletons_done"] = len(results)
    agg["skeletons_requested"] = len(items)
    return results, agg, info
