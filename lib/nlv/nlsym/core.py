"""nlsym core: symbolic values, the forking context and output/outcome comparison (DESIGN.md 2.3).

Every value has a CONCRETE type on a path (the executor forks on every branch); the payload of
ints and bools may be a z3 term.  Integers are 64-bit bit-vectors holding the signed VALUE
(not the tagged word); the 61-bit range is part of the path condition.
"""
import os

import z3

MAX_INT = (1 << 60) - 1
MIN_INT = -(1 << 60)
W = 64

ERR_KINDS = ("SyntaxError", "ReferenceError", "TypeError", "IndexError", "ArgumentError")
ANY_ERR = frozenset(ERR_KINDS)


def is_sym(x):
    return isinstance(x, z3.ExprRef)


def bv(x):
    return x if is_sym(x) else z3.BitVecVal(x, W)


def zbool(x):
    return x if is_sym(x) else z3.BoolVal(bool(x))


class V:
    """A value.  kind in null|bool|int|func|float|str|arr."""
    __slots__ = ("kind", "p", "q", "r")

    def __init__(self, kind, p=None, q=None, r=None):
        self.kind, self.p, self.q, self.r = kind, p, q, r

    def __repr__(self):
        if self.kind in ("null",):
            return "null"
        if self.kind == "func":
            return "func(%r,%r)" % (self.p, self.q)
        return "%s(%r)" % (self.kind, self.p)


NULL = V("null")


def vbool(b):
    return V("bool", b)


def vint(i):
    return V("int", i)


class Heap:
    """Allocation records shared by reference.  strings: list of chars; arrays: list of V; floats: python float."""

    def __init__(self):
        self.cells = []

    def alloc(self, kind, payload):
        self.cells.append([kind, payload, True])
        return len(self.cells) - 1

    def get(self, ref):
        return self.cells[ref][1]

    def set(self, ref, payload):
        self.cells[ref][1] = payload


# ------------------------------------------------------------------ forking context
class Undecided(Exception):
    """solver returned unknown: the path is neither a pass nor a violation"""


class Unsupported(Exception):
    """the path left the modelled fragment (e.g. symbolic float): reported, not compared"""


class Infeasible(Exception):
    pass


XCHECK_DIR = os.environ.get("NLV_XCHECK_DIR")


class Engine:
    """One z3 solver; paths are explored by re-execution with a decision prefix."""

    def __init__(self, timeout_ms=10000):
        self.solver = z3.Solver()
        self.solver.set("timeout", timeout_ms)
        self.queries = 0
        self.solver_s = 0.0
        self.undecided = 0

    def check(self, *assumptions):
        import time
        t0 = time.time()
        r = self.solver.check(*assumptions)
        self.solver_s += time.time() - t0
        self.queries += 1
        if XCHECK_DIR and self.queries in (2, 7, 40, 200) and r != z3.unknown:
            self._dump(assumptions, r)
        return r

    def _dump(self, assumptions, r):
        """write the query as SMT-LIB2 for the second-solver cross-check (props.cross_check)"""
        import os
        try:
            s2 = z3.Solver()
            s2.add(self.solver.assertions())
            for a in assumptions:
                s2.add(a)
            text = s2.to_smt2()
            name = "q%d_%d_%d.smt2" % (os.getpid(), id(self) & 0xFFFFFF, self.queries)
            with open(os.path.join(XCHECK_DIR, name), "w") as f:
                f.write("; expected: %s\n(set-logic ALL)\n%s" % (r, text))
        except Exception:
            pass

    def explore(self, run, max_paths=4096):
        """run(ctx) -> result; yields (result, ctx) for every feasible path (solver state = path condition)."""
        work = [[]]
        n = 0
        while work and n < max_paths:
            prefix = work.pop()
            ctx = Ctx(self, prefix, work)
            self.solver.push()
            try:
                try:
                    res = run(ctx)
                except Undecided:
                    self.undecided += 1
                    res = ("undecided",)
                except Unsupported as e:
                    res = ("unsupported", str(e))
                n += 1
                yield res, ctx
            finally:
                self.solver.pop()
        self.truncated = bool(work)


class Ctx:
    def __init__(self, engine, prefix, work):
        self.e = engine
        self.decisions = list(prefix)
        self.pos = 0
        self.work = work

    def assume(self, cond):
        self.e.solver.add(cond)

    def branch(self, cond):
        """Decide a (possibly symbolic) condition on this path; forks when both outcomes are feasible."""
        if not is_sym(cond):
            return bool(cond)
        cond = z3.simplify(cond)
        if z3.is_true(cond):
            return True
        if z3.is_false(cond):
            return False
        if self.pos < len(self.decisions):
            d = self.decisions[self.pos]
            self.pos += 1
            self.e.solver.add(cond if d else z3.Not(cond))
            return d
        rt = self.e.check(cond)
        rf = self.e.check(z3.Not(cond))
        if rt == z3.unknown or rf == z3.unknown:
            raise Undecided()
        if rt == z3.sat and rf == z3.sat:
            self.work.append(self.decisions + [False])
            d = True
        elif rt == z3.sat:
            d = True
        elif rf == z3.sat:
            d = False
        else:
            raise Infeasible()
        self.decisions.append(d)
        self.pos += 1
        self.e.solver.add(cond if d else z3.Not(cond))
        return d

    def concretize(self, term, candidates):
        """Return the python value among candidates that `term` equals on this path (forking), or None."""
        if not is_sym(term):
            return term if term in candidates else None
        for c in candidates:
            if self.branch(term == z3.BitVecVal(c, W)):
                return c
        return None


# ------------------------------------------------------------------ display (Object's Display impl / README print)
def fmt_float(x):
    """Rust's f64 Display: shortest round-trip digits, never scientific, integers without '.0'."""
    import math
    if x != x:
        return "NaN"
    if math.isinf(x):
        return "inf" if x > 0 else "-inf"
    r = repr(float(x))
    if "e" in r or "E" in r:
        from decimal import Decimal
        r = format(Decimal(r), "f")
    if r.endswith(".0"):
        r = r[:-2]
    if r == "-0":
        r = "-0"
    return r


def display(v, heap, depth=0, open_lists=()):
    """-> list of segments: str | ('int', term) | ('bool', term).  A list met again while it is being written is "[...]"."""
    k = v.kind
    if k == "null":
        return [""]
    if k == "bool":
        if is_sym(v.p):
            return [("bool", v.p)]
        return ["ja" if v.p else "nee"]
    if k == "int":
        if is_sym(v.p):
            return [("int", v.p)]
        return [str(v.p)]
    if k == "float":
        return [fmt_float(v.p)]
    if k == "str":
        return ["".join(heap.get(v.p))]
    if k == "func":
        return ["functie"]
    if k == "arr":
        if v.p in open_lists:
            return ["[...]"]
        if depth > 12:
            raise Unsupported("display of a deeply nested array")
        out = ["["]
        for i, x in enumerate(heap.get(v.p)):
            if i:
                out.append(", ")
            out += display(x, heap, depth + 1, open_lists + (v.p,))
        out.append("]")
        return out
    raise AssertionError(k)


def norm_segments(segs):
    out = []
    for s in segs:
        if isinstance(s, str):
            if out and isinstance(out[-1], str):
                out[-1] += s
            elif s != "" or not out:
                out.append(s)
        else:
            out.append(s)
    return [s for s in out if s != ""]


# ------------------------------------------------------------------ structural comparison -> z3 "differs" formula
def snapshot(v, heap, depth=0):
    """Immutable structure of a value (for outcomes): nested tuples with z3 leaves."""
    k = v.kind
    if k in ("null",):
        return ("null",)
    if k in ("bool", "int"):
        return (k, v.p)
    if k == "float":
        return ("float", v.p)
    if k == "func":
        return ("func", v.p, v.q)
    if k == "str":
        return ("str", "".join(heap.get(v.p)))
    if k == "arr":
        if depth > 6:
            return ("arr", "cut")
        return ("arr", tuple(snapshot(x, heap, depth + 1) for x in heap.get(v.p)))
    raise AssertionError(k)


def differs(a, b):
    """z3 Bool (or python bool): structures a and b differ."""
    if a[0] != b[0]:
        return True
    k = a[0]
    if k == "null":
        return False
    if k == "bool":
        if is_sym(a[1]) or is_sym(b[1]):
            return zbool(a[1]) != zbool(b[1])
        return bool(a[1]) != bool(b[1])
    if k == "int":
        if is_sym(a[1]) or is_sym(b[1]):
            return bv(a[1]) != bv(b[1])
        return a[1] != b[1]
    if k == "float":
        x, y = a[1], b[1]
        if x != x and y != y:
            return False
        import struct
        return struct.pack("<d", x) != struct.pack("<d", y)
    if k == "func":
        return a[1:] != b[1:] and a[1] is not None and b[1] is not None
    if k == "str":
        return a[1] != b[1]
    if k == "arr":
        if a[1] == "cut" or b[1] == "cut":
            return False
        if len(a[1]) != len(b[1]):
            return True
        ds = [differs(x, y) for x, y in zip(a[1], b[1])]
        if any(d is True for d in ds):
            return True
        sy = [d for d in ds if is_sym(d)]
        return z3.Or(*sy) if sy else False
    raise AssertionError(k)


def seg_differs(sa, sb):
    sa, sb = norm_segments(sa), norm_segments(sb)
    if len(sa) != len(sb):
        # a symbolic int next to text may still render equal; treat shape mismatch conservatively as 'unknown'
        return None
    ds = []
    for x, y in zip(sa, sb):
        if isinstance(x, str) and isinstance(y, str):
            if x != y:
                return True
        elif isinstance(x, tuple) and isinstance(y, tuple) and x[0] == y[0]:
            ds.append(bv(x[1]) != bv(y[1]) if x[0] == "int" else zbool(x[1]) != zbool(y[1]))
        else:
            return None
    return z3.Or(*ds) if ds else False


def concretize_structure(s, model):
    """Evaluate z3 leaves of a snapshot under a model -> plain python structure."""
    k = s[0]
    if k == "int":
        x = s[1]
        if is_sym(x):
            x = model.eval(x, model_completion=True).as_signed_long()
        return ("int", x)
    if k == "bool":
        x = s[1]
        if is_sym(x):
            x = z3.is_true(model.eval(x, model_completion=True))
        return ("bool", bool(x))
    if k == "arr" and s[1] != "cut":
        return ("arr", tuple(concretize_structure(x, model) for x in s[1]))
    return s
