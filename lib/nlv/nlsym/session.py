"""C17: a retained session (ONE real Compiler, ONE machine) against one growing program.

The real compiler is driven natively line by line (nl-dump sessiondump: one retained Compiler, bytecode of every line);
the machine specification threads ONE machine through the lines (symbolic data, run-time failures are symbolic error
points).  The outcome of every line must equal the outcome of the last line of a FRESH compilation of the concatenation
of the successful earlier lines plus this line, under the same hole values.
"""
import itertools
import json
import time

import z3

from .core import MAX_INT, W, Engine, concretize_structure, differs
from .driver import (ByModel, Finding, HOLE_BASE, compare_vm_vm, concretize_source, fixed_int_literals, hole_ids, instantiate,
                     native_outcome, patterns_for, render)
from .vmexec import Machine, Program, Unsafe

SEP = "\x01"


def declared_names(ast):
    out = set()
    for st in ast or []:
        if st.get("s") == "let":
            out.add(st["name"])
        elif st.get("s") == "expr" and st["value"].get("e") == "func" and st["value"].get("name"):
            out.add(st["value"]["name"])
    return out


def classify(finding, lines, i, failed_decl):
    """role key of a session finding (known findings are keyed by role, not by session)"""
    import re as _re
    if "not a function entry of this code" in finding.detail:
        finding.role = "session:function-value-of-earlier-line"
    elif any(_re.search(r"\b%s\b" % _re.escape(n), lines[i]) for n in failed_decl):
        finding.role = "session:declaration-of-line-failing-at-run-time"
    return finding


def check_session(checker, lines):
    """lines: list of skeleton lines.  Returns findings (unconfirmed)."""
    st = checker.stats
    st["skeletons"] += 1
    checker.deadline = time.time() + checker.skeleton_budget_s
    nat = checker.native
    hs = sorted(set(h for l in lines for h in hole_ids(l)))
    pat = {h: ("class", i) for i, h in enumerate(hs)}
    inst = [instantiate(l, pat) for l in lines]
    sess = nat.session_dump(inst)
    eng = Engine(checker.solver_timeout_ms)
    holes = checker._holes(pat)
    hv = list(holes.values())
    lits = set()
    for s in sess:
        if "ast" in s:
            lits |= set(fixed_int_literals(s["ast"]))
    for h in hv:
        eng.solver.add(h >= 0, h <= z3.BitVecVal(MAX_INT, W))
        for v in lits:
            if v <= MAX_INT:
                eng.solver.add(h != z3.BitVecVal(v, W))
    for a, b in itertools.combinations(hv, 2):
        eng.solver.add(a != b)
    progs = [Program(s["code"], nat.optable, holes) if "code" in s else None for s in sess]
    findings = []
    fresh_cache = {}

    def fresh_program(ok_idx, i):
        key = (tuple(ok_idx), i)
        if key not in fresh_cache:
            src = ";\n".join([inst[j] for j in ok_idx] + [inst[i]])
            fresh_cache[key] = (src, nat.dump_many([src])[0])
        return fresh_cache[key]

    def model_lines(model):
        vals = {ph - HOLE_BASE - 1: (model.eval(var, model_completion=True).as_long() if model is not None else 0) for ph, var in holes.items()}
        return [concretize_source(l, pat, vals) for l in lines]

    def run_session(ctx):
        """thread one machine through all lines; returns per-line outcomes"""
        m = Machine(ctx, max_steps=checker.max_steps)
        outs = []
        for i, p in enumerate(progs):
            if p is None:
                outs.append(("rejected", sess[i]["error"]["kind"], sess[i]["error"]["stage"]))
                continue
            m.out = []
            o = m.run(p)
            outs.append(o)
            if o[0] in ("unsafe", "diverged", "undecided", "unsupported"):
                break
        return outs

    witnesses = []
    for outs, ctx in eng.explore(run_session, checker.max_paths):
        st["vm_paths"] += 1
        # one concrete witness per explored session path: the REAL retained session must do what the specification says
        if isinstance(outs, list) and len(witnesses) < 6 and eng.check() == z3.sat:
            mdl = eng.solver.model()
            exp = []
            for o in outs:
                if o[0] == "ok":
                    exp.append(("ok", concretize_structure(o[1], mdl), render(o[2], mdl)))
                elif o[0] == "err":
                    exp.append(("err", o[1], render(o[2], mdl)))
                elif o[0] == "rejected":
                    exp.append(("err", o[1], ""))
                else:
                    exp.append(None)
            witnesses.append((model_lines(mdl), exp))
        if time.time() > checker.deadline:
            st["truncated"] += 1
            break
        if not isinstance(outs, list):
            st["undecided"] += 1
            continue
        ok_idx = []
        failed_decl = set()
        for i, o in enumerate(outs):
            if o[0] == "err" and "ast" in sess[i]:
                failed_decl_next = declared_names(sess[i]["ast"])
            else:
                failed_decl_next = set()
            if o[0] in ("diverged", "undecided", "unsupported"):
                st["diverged"] += 1
                break
            # expected: last line of the fresh program made of the successful earlier lines + this line
            src, d = fresh_program(ok_idx, i)
            if o[0] == "unsafe":
                mdl = eng.solver.model() if eng.check() == z3.sat else None
                f = Finding("session", "line %d: machine precondition violated in the retained session: %s" % (i + 1, o[1]),
                            SEP.join(model_lines(mdl)), SEP.join(lines), role="session")
                f.line = i
                f.ok_idx = list(ok_idx)
                findings.append(classify(f, lines, i, failed_decl))
                break
            if o[0] == "rejected":
                # the fresh program must be rejected as well, with the same kind
                if "code" in d or ("error" in d and d["error"]["kind"] != o[1]):
                    mdl = eng.solver.model() if eng.check() == z3.sat else None
                    f = Finding("session", "line %d is rejected in the session (%s) but the growing program %s" % (
                        i + 1, o[1], "compiles" if "code" in d else "is rejected with " + d["error"]["kind"]),
                        SEP.join(model_lines(mdl)), SEP.join(lines), role="session")
                    f.line, f.ok_idx = i, list(ok_idx)
                    findings.append(f)
                continue
            if "code" not in d and o[0] == "err" and o[1] == d.get("error", {}).get("kind") and not o[2]:
                # rejected by the compiler in the growing program, same error kind (and no output) at run time in the session
                continue
            if "code" not in d:
                mdl = eng.solver.model() if eng.check() == z3.sat else None
                f = Finding("session", "line %d runs in the session but the growing program is rejected (%s)" % (i + 1, d.get("error", {}).get("kind")),
                            SEP.join(model_lines(mdl)), SEP.join(lines), role="session")
                f.line, f.ok_idx = i, list(ok_idx)
                findings.append(f)
                if o[0] == "ok":
                    ok_idx.append(i)
                continue
            fp = Program(d["code"], nat.optable, holes)
            cmpv = bool(d["ast"]) and d["ast"][-1]["s"] == "expr"
            n_earlier_out = None
            for fo, _ in eng.explore(lambda c: Machine(c, max_steps=checker.max_steps * (len(ok_idx) + 2)).run(fp), 8):
                st["pairs"] += 1
                if fo[0] in ("diverged", "undecided", "unsupported"):
                    st["not_compared"] += 1
                    continue
                # the fresh run prints the output of all earlier lines too: compare the tail that belongs to this line
                fo2 = fo
                if fo[0] in ("ok", "err"):
                    exp_out = fo[2]
                    # output of the session line must be a suffix of the fresh program's output
                    k = len(o[2]) if o[0] in ("ok", "err") else 0
                    fo2 = (fo[0], fo[1], exp_out[len(exp_out) - k:] if k <= len(exp_out) else exp_out) + tuple(fo[3:])
                f, text = compare_vm_vm(fo2, o, cmpv)
                if f is None:
                    st["not_compared"] += 1
                    continue
                st["compared"] += 1
                if f is False:
                    continue
                if isinstance(f, ByModel):
                    r = eng.check()
                    if r == z3.sat and render(f.a, eng.solver.model()) == render(f.b, eng.solver.model()):
                        continue
                elif f is True:
                    r = eng.check()
                else:
                    r = eng.check(f)
                if r == z3.sat:
                    fd = Finding("session", "line %d: %s (original = growing program, variant = retained session)" % (i + 1, text),
                                 SEP.join(model_lines(eng.solver.model())), SEP.join(lines), role="session")
                    fd.line, fd.ok_idx = i, list(ok_idx)
                    findings.append(classify(fd, lines, i, failed_decl))
                elif r == z3.unknown:
                    st["undecided"] += 1
            if o[0] == "ok":
                ok_idx.append(i)
            failed_decl |= failed_decl_next
        if len(findings) > 6:
            break
    for wl, exp in witnesses:
        st["witnesses"] = st.get("witnesses", 0) + 1
        try:
            real = nat._batch(nat.bin, "session", [SEP.join(wl)], timeout=6)[0]
        except Exception as e:
            if any(x is None for x in exp):
                continue  # the specification itself stopped (precondition violated / bound): reported above
            f = Finding("session", "the real retained session crashes or hangs on a path witness (%s)" % str(e)[-80:], SEP.join(wl), SEP.join(lines), role="session")
            f.line, f.ok_idx = 0, []
            findings.append(f)
            continue
        for i, (r, e) in enumerate(zip(real, exp)):
            if e is None:
                break
            if "result" in r:
                no = native_outcome(r)
                out = r.get("output", "")
            else:
                no = ("err", r["error"]["kind"])
                out = ""
            bad = None
            if no[0] != e[0]:
                bad = "real %r, specification %r" % (no[:2], e[:2])
            elif no[0] == "ok" and differs(no[1], e[1]) is True:
                bad = "real value %r, specification %r" % (no[1], e[1])
            elif no[0] == "err" and no[1] != e[1]:
                bad = "real error %s, specification %s" % (no[1], e[1])
            elif out != e[2]:
                bad = "real output %r, specification %r" % (out[:60], e[2][:60])
            if bad:
                f = Finding("session", "line %d of a path witness: the real retained session deviates from the machine specification: %s" % (i + 1, bad),
                            SEP.join(wl), SEP.join(lines), role="session")
                f.line, f.ok_idx = i, []
                f.expected = list(exp)  # what the machine specification computes for every line of this witness (replayed by confirm_session)
                findings.append(f)
                break
    st["queries"] += eng.queries
    st["solver_s"] += eng.solver_s
    st["programs"] += len(lines)
    if len(checker.samples) < 8:
        checker.samples.append({"session": lines, "paths_so_far": st["vm_paths"]})
    return findings


def confirm_session(native, finding):
    """Replay: the real retained session (one Compiler, one VM) line by line vs fresh evaluation of the growing program."""
    lines = finding.source.split(SEP)
    why, confirmed = [], False
    try:
        sess = native._batch(native.bin, "session", [SEP.join(lines)], timeout=4)[0]
    except Exception as e:
        # the real session crashed (abort / hang): find out at which line by replaying prefixes
        finding.confirmed = True
        finding.native = {"why": ["the real retained session crashes or hangs the process: %r" % (str(e)[-120:],)]}
        return True
    expected = getattr(finding, "expected", None)
    if expected:
        # a deviation of the real session from the machine specification (tied to the real VM::run by the Kani contracts):
        # confirmed if the real session reproduces it
        from .core import differs
        for i, (r, e) in enumerate(zip(sess, expected)):
            if e is None:
                break
            no = native_outcome(r) if "result" in r else ("err", r["error"]["kind"])
            out = r.get("output", "") if "result" in r else ""
            bad = None
            if no[0] != e[0]:
                bad = "real %r, specification %r" % (no[:2], e[:2])
            elif no[0] == "ok" and differs(no[1], e[1]) is True:
                bad = "real value %r, specification %r" % (no[1], e[1])
            elif no[0] == "err" and no[1] != e[1]:
                bad = "real error %s, specification %s" % (no[1], e[1])
            elif out != e[2]:
                bad = "real output %r, specification %r" % (out[:60], e[2][:60])
            if bad:
                finding.confirmed = True
                finding.native = {"why": ["line %d (%r) of the retained session: %s (reproduced)" % (i + 1, lines[i][:60], bad)]}
                return True
    ok_idx = []
    for i, s in enumerate(sess):
        if "result" in s:
            so = native_outcome(s)
        else:
            so = ("err", s["error"]["kind"], s["error"]["stage"])
        src = ";\n".join([lines[j] for j in ok_idx] + [lines[i]])
        fj = native.eval_one(src)
        fo = native_outcome(fj)
        bad = None
        if fo[0] in ("panic", "abort", "hang") or so[0] in ("panic", "abort", "hang"):
            bad = "crash: session %r, growing program %r" % (so[:2], fo[:2])
        elif fo[0] != so[0] or (fo[0] == "err" and fo[1] != so[1]):
            bad = "session %r, growing program %r" % (so[:2], fo[:2])
        elif fo[0] == "ok":
            from .core import differs
            d = native.dump_many([src])[0]
            if d.get("ast") and d["ast"][-1]["s"] == "expr" and differs(fo[1], so[1]) is True:
                bad = "session value %r, growing program value %r" % (so[1], fo[1])
            elif not fj.get("output", "").endswith(s.get("output", "")):
                bad = "session output %r is not the tail of the growing program's output %r" % (s.get("output", "")[:60], fj.get("output", "")[-60:])
        if bad:
            confirmed = True
            why.append("line %d (%r): %s" % (i + 1, lines[i][:60], bad))
        if so[0] == "ok":
            ok_idx.append(i)
        if so[0] in ("panic", "abort", "hang"):
            break
    finding.confirmed = confirmed
    finding.native = {"why": why}
    return confirmed
