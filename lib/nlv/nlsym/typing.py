"""Abstract stack typing of emitted bytecode (DESIGN.md 2.3): one unknown integer height per instruction
boundary, equalities along every CFG edge (both outcomes of every JumpIfFalse), lower bounds from what each
instruction pops / which local slot it touches.  Satisfiable <=> the stack height is a function of ip, hence no
underflow and no residue for ANY number of loop iterations.  Decided by z3; an unsat core names the edge.
"""
import z3

EFFECT = {  # name -> (pops, pushes); None = operand dependent
    "Const": (0, 1), "Pop": (1, 0), "True": (0, 1), "False": (0, 1), "Null": (0, 1),
    "Not": (1, 1), "Negate": (1, 1), "Jump": (0, 0), "JumpIfFalse": (1, 0),
    "GetLocal": (0, 1), "SetLocal": (1, 0), "GetGlobal": (0, 1), "SetGlobal": (1, 0),
    "IndexGet": (2, 1), "IndexSet": (3, 1), "Halt": (0, 0), "Return": (0, 0), "ReturnValue": (1, 0),
}
for _n in ("Add", "Subtract", "Divide", "Multiply", "Gt", "Gte", "Lt", "Lte", "Eq", "Neq", "And", "Or", "Modulo"):
    EFFECT[_n] = (2, 1)
for _n in ("Gt", "Gte", "Lt", "Lte", "Eq", "Neq", "Add", "Subtract", "Multiply", "Divide", "Modulo"):
    EFFECT[_n + "LocalConst"] = (0, 1)


def decode(prog, p):
    name, widths = prog.op_by_code[prog.ins[p]]
    ops = []
    q = p + 1
    for w in widths:
        if q + w > len(prog.ins):
            return name, None, q
        ops.append(prog.ins[q] if w == 1 else prog.ins[q] | (prog.ins[q + 1] << 8))
        q += w
    return name, ops, q


def stack_typing(prog):
    """-> None if the code is well typed, else a description of the first problem."""
    if prog.decode_error:
        return prog.decode_error
    nconst = len(prog.consts_json)
    regions = [(None, 0, len(prog.ins), 0)]
    for (a, b) in prog.regions:
        nls = set(int(c["nl"]) for c in prog.consts_json if c["t"] == "func" and int(c["ip"]) == a)
        if len(nls) != 1:
            return "function entry %d has inconsistent local counts %r" % (a, sorted(nls))
        regions.append(((a, b), a, b, nls.pop()))
    for c in prog.consts_json:
        if c["t"] == "func" and not any(r[0] and r[0][0] == int(c["ip"]) for r in regions):
            return "function constant with entry %s that is not the start of a function body" % c["ip"]
    s = z3.Solver()
    s.set("timeout", 10000)
    tracked = {}
    k = [0]

    def add(f, msg):
        k[0] += 1
        t = z3.Bool("t%d" % k[0])
        tracked[str(t)] = msg
        s.assert_and_track(f, t)

    for owner, entry, end, h0 in regions:
        H = {}

        def h(p):
            if p not in H:
                H[p] = z3.Int("H_%d_%d" % (entry, p))
            return H[p]
        add(h(entry) == h0, "entry of region %r starts with %d slots" % (owner, h0))
        seen, work = set(), [entry]
        while work:
            p = work.pop()
            if p in seen:
                continue
            seen.add(p)
            if p not in prog.bound:
                return "control reaches %d which is not an instruction boundary (region %r)" % (p, owner)
            if prog.owner(p) != owner:
                return "control of region %r reaches ip=%d which belongs to region %r" % (owner, p, prog.owner(p))
            name, ops, nxt = decode(prog, p)
            if ops is None:
                return "truncated operands at %d" % p
            if name == "Call":
                pops, pushes = ops[0] + 1, 1
            elif name == "CallBuiltin":
                if ops[0] not in prog.builtin_by_code:
                    return "builtin number %d out of range at %d" % (ops[0], p)
                pops, pushes = ops[1], 1
            elif name == "Array":
                pops, pushes = ops[0], 1
            else:
                pops, pushes = EFFECT[name]
            add(h(p) >= pops, "%s at %d pops %d" % (name, p, pops))
            if name in ("GetLocal",) or name.endswith("LocalConst"):
                add(h(p) > ops[0], "%s at %d reads local slot %d" % (name, p, ops[0]))
            if name == "SetLocal":
                add(h(p) - 1 > ops[0], "SetLocal at %d writes local slot %d" % (p, ops[0]))
            if name == "Const" and ops[0] >= nconst:
                return "constant index %d out of range at %d" % (ops[0], p)
            if name.endswith("LocalConst") and ops[1] >= nconst:
                return "constant index %d out of range at %d" % (ops[1], p)
            if name == "Halt":
                if owner is not None:
                    return "Halt reachable inside function body %r" % (owner,)
                add(h(p) == 0, "Halt at %d must leave an empty operand stack (no residue)" % p)
                continue
            if name in ("Return", "ReturnValue"):
                if owner is None:
                    return "%s reachable at top level (ip=%d): there is no caller frame" % (name, p)
                continue
            succ = []
            if name == "Jump":
                succ = [ops[0]]
            elif name == "JumpIfFalse":
                succ = [ops[0], nxt]
            else:
                succ = [nxt]
            for t in succ:
                if t >= end or t < entry:
                    return "control leaves region %r: %s at %d continues at %d" % (owner, name, p, t)
                add(h(t) == h(p) - pops + pushes, "edge %d(%s) -> %d" % (p, name, t))
                work.append(t)
    r = s.check()
    if r == z3.sat:
        return None
    if r == z3.unknown:
        return None
    core = [tracked[str(c)] for c in s.unsat_core()]
    return "operand-stack height is not a function of ip; conflicting constraints: " + "; ".join(sorted(core)[:6])
