"""Skeleton families: programs with integer HOLES ⟦k⟧ (DESIGN.md 2.3/2.4).

Structure is enumerated here; data (every hole, hence every branch outcome, index, error point) is symbolic.
Each family returns [(name, skeleton)].  Names are stable (used as role keys of known findings).
"""
import itertools
import random

H0, H1, H2, H3 = "⟦0⟧", "⟦1⟧", "⟦2⟧", "⟦3⟧"
ARITH = [("add", "+"), ("sub", "-"), ("mul", "*"), ("div", "/"), ("rem", "%")]
CMP = [("lt", "<"), ("lte", "<="), ("gt", ">"), ("gte", ">="), ("eq", "=="), ("neq", "!=")]
OPS = ARITH + CMP


# ------------------------------------------------------------------ C06 / C10: three syntactic forms
def fam_operator_forms():
    out = []
    for n, op in OPS:
        out.append(("ops:lit-lit:" + n, "%s %s %s" % (H0, op, H1)))
        out.append(("ops:neg-lit:" + n, "(0 - %s) %s %s" % (H0, op, H1)))
        out.append(("ops:lit-neg:" + n, "%s %s (0 - %s)" % (H0, op, H1)))
        out.append(("ops:neg-neg:" + n, "(0 - %s - 1) %s (0 - %s)" % (H0, op, H1)))
        out.append(("ops:local-lit:" + n, "functie f(n) { n %s %s }; f(%s)" % (op, H0, H1)))
        out.append(("ops:lit-local:" + n, "functie f(n) { %s %s n }; f(%s)" % (H0, op, H1)))
        out.append(("ops:neglocal-lit:" + n, "functie f(n) { n %s %s }; f(0 - %s)" % (op, H0, H1)))
        out.append(("ops:lit-neglocal:" + n, "functie f(n) { %s %s n }; f(0 - %s - 1)" % (H0, op, H1)))
        out.append(("ops:global-lit:" + n, "stel n = %s; n %s %s" % (H1, op, H0)))
        out.append(("ops:lit-global:" + n, "stel n = 0 - %s; %s %s n" % (H1, H0, op)))
        out.append(("ops:local-local:" + n, "functie f(a, b) { a %s b }; f(%s, 0 - %s)" % (op, H0, H1)))
    # unary minus, chains, op-assign
    out += [
        ("ops:negate", "-%s" % H0),
        ("ops:negate-neg", "-(0 - %s - 1)" % H0),
        ("ops:negate-local", "functie f(n) { -n }; f(0 - %s - 1)" % H0),
        ("ops:chain1", "%s + %s * 2 - %s / 3 %% 2" % (H0, H1, H2)),
        ("ops:chain2", "(%s - %s) * (%s + 1)" % (H0, H1, H2)),
        ("ops:opassign", "stel a = %s; a += %s; a -= 1; a *= 2; a /= 3; a %%= 7; a" % (H0, H1)),
        ("ops:opassign-local", "functie f(a) { a += %s; a *= 3; a }; f(%s)" % (H0, H1)),
        ("ops:cmp-chain", "(%s < %s) == (%s >= %s)" % (H0, H1, H1, H0)),
        ("ops:bool-logic", "(%s < %s && %s < %s) || !(%s == %s)" % (H0, H1, H1, H2, H0, H2)),
        ("ops:total-order", "stel a = 0 - %s; stel b = %s; [a < b, a == b, a > b, a <= b, a >= b, a != b]" % (H0, H1)),
    ]
    # type errors: every cross-type pair on + and <, == (values are literals; the error point follows output)
    vals = [("null", "(als nee { 1 })"), ("bool", "ja"), ("int", H0), ("float", "1.5"), ("str", '"a"'), ("arr", "[1]"), ("func", "functie() { 1 }")]
    for (ta, a), (tb, b) in itertools.product(vals, vals):
        if ta == tb or "null" in (ta, tb):
            continue
        if ta == "func" or tb == "func":
            continue  # a function literal can not be an infix operand (parser restriction 4.3-8)
        out.append(("ops:mixed:%s+%s" % (ta, tb), 'print("x"); stel r = %s + %s; print("y"); r' % (a, b)))
        out.append(("ops:mixed:%s<%s" % (ta, tb), 'print("x"); stel r = %s < %s; print("y"); r' % (a, b)))
    for t, v in vals:
        if t in ("null", "func"):
            continue
        out.append(("ops:same:%s" % t, "stel x = %s; stel y = %s; [type(x), x == y]" % (v, v) if t != "arr" else
                    "stel x = [1]; stel y = [1]; print(1); x == y"))
    out += [
        ("ops:float", "stel a = 1.5; stel b = 0.25; [a + b, a - b, a * b, a / b, a % b, a < b, a >= b, a == b, -a]"),
        ("ops:float-special", "stel z = 0.0; stel i = 1.0 / z; stel n = z / z; [i, -i, n == n, n < 1.0, i > 1.0, z == -z, 1.0 % z]"),
        ("ops:string-order", 'stel a = "ab"; stel b = "b"; [a < b, a <= a, "é" > "z", "" < a, a == "ab", a != b, "a" < "ab"]'),
        ("ops:not-on-int", "print(1); !%s" % H0),
        ("ops:neg-on-bool", "print(1); -(%s < %s)" % (H0, H1)),
        ("ops:and-on-int", "print(1); %s && ja" % H0),
    ]
    return out


# ------------------------------------------------------------------ C11: structured control flow
LASTS = {
    "expr": "t = t + 1; t * 10;",
    "let": "t = t + 2; stel q = t;",
    "empty": "",
    "block-expr": "{ t = t + 3; t * 100; };",
    "block-empty": "t = t + 4; {};",
    "block-let": "{ stel q = 5; t = t + q; };",
    "if": "als t < 1 { t = t + 6; 60; } anders { 61; };",
    "if-noelse": "als t < 1 { t = t + 7; 70; };",
    "loop": "stel k = 0; zolang k < 2 { k += 1; t = t + 8; };",
    "assign": "t = t + 9;",
    "two-exprs": "1; 2;",
    # branches / bodies that emit NO code of their own or whose only statement emits none
    "only-empty-block": "{};",
    "only-nested-empty": "{ { }; };",
    "only-empty-if": "als t > 100 { };",
    "only-dead-loop": "zolang nee { t = t + 50; };",
}
EXITS = {"stop": "t = t + 20; stop;", "volgende": "t = t + 30; volgende;", "antwoord": "antwoord t + 40;"}


def fam_control():
    out = []
    cond = "%s < %s" % (H0, H1)
    lasts = list(LASTS.items())
    # (1) if / else-if / else in three positions x every kind of last statement in each branch
    for (ln, l), (rn, r) in itertools.product(lasts, [("none", None)] + lasts):
        if rn not in ("none", "expr", "let", "empty") and ln not in ("expr", "let", "empty"):
            continue  # full product only against the three basic else-forms
        els = "" if r is None else " anders { %s }" % r
        ifx = "als %s { %s }%s" % (cond, l, els)
        nm = "%s/%s" % (ln, rn)
        out.append(("ctl:if-stmt:" + nm, "stel t = 0; %s; t" % ifx))
        out.append(("ctl:if-value:" + nm, "stel t = 0; stel r = %s; [r, t]" % ifx))
        out.append(("ctl:if-last:" + nm, "stel t = 0; %s" % ifx))
        out.append(("ctl:if-in-func:" + nm, "stel t = 0; functie f() { %s }; stel r = f(); [r, t]" % ifx))
        out.append(("ctl:if-in-loop:" + nm, "stel t = 0; stel i = 0; zolang i < 3 { i += 1; %s; }; [i, t]" % ifx))
    # (2) else-if chains
    for (an, a), (bn, b), (cn, c) in itertools.product(lasts[:4], lasts[:4], [("none", None)] + lasts[:3]):
        els = "" if c is None else " anders { %s }" % c
        ch = "als %s < %s { %s } anders als %s < %s { %s }%s" % (H0, H1, a, H1, H2, b, els)
        nm = "%s/%s/%s" % (an, bn, cn)
        # (the observation must not start with '[': `anders als` swallows the ';' and `[..]` would index the chain)
        out.append(("ctl:chain-value:" + nm, "stel t = 0; stel r = %s; stel uit = [r, t]; uit" % ch))
        out.append(("ctl:chain-in-func:" + nm, "stel t = 0; functie f(n) { %s }; stel uit = [f(0), t]; uit" % ch))
    # (3) loops: every body ending, 0/1/2/many iterations through a symbolic bound
    for ln, l in lasts:
        out.append(("ctl:loop-sym:" + ln, "stel t = 0; stel i = 0; zolang i < %s { i += 1; %s }; [i, t]" % (H0, l)))
        out.append(("ctl:loop-in-func:" + ln, "stel t = 0; functie f(n) { stel i = 0; zolang i < n { i += 1; %s }; i }; [f(%s), t]" % (l, H0)))
        out.append(("ctl:loop-then-call:" + ln,
                    "stel t = 0; functie g(a, b) { a * 2 + b }; stel i = 0; zolang i < 3 { i += 1; %s }; [g(i, t), g(1, 2)]" % l))
    # (4) early exits at every depth
    for (en, e), depth in itertools.product(EXITS.items(), range(0, 4)):
        body = e.rstrip(";")
        for d in range(depth):
            body = ["als %s < %s { %s } anders { t = t + 1; }" % (H1, H2, body), "{ %s }" % body,
                    "als t > 100 { t = 0; } anders { %s }" % body][d % 3]
        if en == "antwoord":
            out.append(("ctl:exit:%s:d%d" % (en, depth),
                        "stel t = 0; functie f() { stel i = 0; zolang i < %s { i += 1; t = t + 1; %s; t = t + 100; }; i + 1000 }; stel r = f(); [r, t]" % (H0, body)))
            out.append(("ctl:exit:%s-noloop:d%d" % (en, depth),
                        "stel t = 0; functie f() { t = t + 1; %s; t = t + 100; 7 }; stel r = f(); [r, t]" % body))
        else:
            out.append(("ctl:exit:%s:d%d" % (en, depth),
                        "stel t = 0; stel i = 0; zolang i < %s { i += 1; t = t + 1; %s; t = t + 100; }; [i, t]" % (H0, body)))
            out.append(("ctl:exit:%s-in-func:d%d" % (en, depth),
                        "stel t = 0; functie f(n) { stel i = 0; zolang i < n { i += 1; t = t + 1; %s; t = t + 100; }; i }; [f(%s), t]" % (body, H0)))
    # (5) nested loops: stop / volgende act on the innermost loop only
    for en in ("stop", "volgende"):
        out.append(("ctl:nested:" + en,
                    "stel t = 0; stel i = 0; zolang i < %s { i += 1; stel j = 0; zolang j < %s { j += 1; als j == %s { %s; }; t = t + 1; }; t = t + 100; }; [i, t]"
                    % (H0, H1, H2, en)))
        out.append(("ctl:nested-outer:" + en,
                    "stel t = 0; stel i = 0; zolang i < %s { i += 1; als i == %s { %s; }; stel j = 0; zolang j < 2 { j += 1; t = t + 1; }; t = t + 100; }; [i, t]"
                    % (H0, H1, en)))
    # (5b) an else-less `als` whose block ends in an exit, as the LAST statement of a function body / loop body / program
    out += [
        ("ctl:fn-last-is-ifnoelse-antwoord", "stel t = 0; functie f(n) { t = t + 1; als n < %s { antwoord 100; } }; stel r = [f(%s), f(0)]; [r, t]" % (H0, H1)),
        ("ctl:fn-last-is-ifnoelse-antwoord-nested", "stel t = 0; functie f(n) { als n > 0 { t = t + 1; als n < %s { antwoord 1; } } }; stel r = [f(%s), f(0)]; [r, t]" % (H0, H1)),
        ("ctl:fn-last-is-ifnoelse-antwoord-in-loop", "functie zoek(l, x) { stel i = 0; zolang i < lengte(l) { als l[i] == x { antwoord i; }; i += 1; } }; stel p = [zoek([4, 9, 2], %s), zoek([], 1)]; p" % H0),
        ("ctl:fn-only-ifnoelse-antwoord", "functie f(n) { als n == %s { antwoord n * 2; } }; stel a = f(%s); stel b = f(%s); [a, b, 7]" % (H0, H0, H1)),
        ("ctl:loop-last-is-ifnoelse-stop", "stel t = 0; stel i = 0; zolang i < 5 { i += 1; t = t + 1; als i == %s { stop; } }; [i, t]" % H0),
        ("ctl:loop-last-is-ifnoelse-volgende", "stel t = 0; stel i = 0; zolang i < 4 { i += 1; als i == %s { volgende; } }; [i, t]" % H0),
        ("ctl:program-last-is-ifnoelse", "stel t = %s; als t < %s { t = t + 1; }" % (H0, H1)),
    ]
    # (5c) inside a function: a branch / loop body whose last statement assigns to a LOCAL, with the value of the if / loop used
    out += [
        ("ctl:fn-branch-ends-in-local-assign", "functie f(n) { stel x = 1; als n < %s { x = x + 5 } anders { x += 1 } }; [f(%s), f(0)]" % (H0, H1)),
        ("ctl:fn-branch-local-assign-value-stored", "functie f(n) { stel x = 1; stel y = als n < %s { x = 3 } anders { x -= 1 }; [x, y] }; [f(%s), f(0)]" % (H0, H1)),
        ("ctl:fn-param-assign-in-branch", "functie f(n) { als n < %s { n = n * 2 } anders als n == %s { n += 7 } anders { n } }; [f(%s), f(1), f(0)]" % (H0, H0, H1)),
        ("ctl:fn-loop-body-ends-in-local-assign", "functie f(n) { stel s = 0; stel i = 0; zolang i < n { i += 1; s = s + i }; [s, i] }; f(%s)" % H0),
        ("ctl:fn-branch-assign-as-argument", "functie g(a, b) { a * 10 + b }; functie f(n) { stel x = 0; g(als n < %s { x = 4 } anders { x = 6 }, x) }; [f(%s), f(0)]" % (H0, H1)),
        ("ctl:top-branch-ends-in-global-assign", "stel x = 1; stel y = als %s < %s { x = x + 5 } anders { x += 1 }; [x, y]" % (H0, H1)),
    ]
    # (5d) an `als` with an empty branch as a NON-last statement of a block whose value is used while operands are pending
    out += [
        ("ctl:nonlast-if-empty-branch-in-list", "[1, als %s < %s { als %s < 5 { } anders { 7; }; 2 } anders { als ja { }; 4 }, 3]" % (H0, H1, H0)),
        ("ctl:nonlast-if-empty-branch-in-sum", "10 + als ja { als %s < %s { 1; } anders { }; 5 }" % (H0, H1)),
        ("ctl:nonlast-if-empty-branch-in-fn", "functie f(n) { als n < %s { } anders { n = n + 1; }; als n > 100 { }; n * 2 }; [f(%s), f(0), f(200)]" % (H0, H1)),
        ("ctl:nonlast-if-empty-branch-in-loop-then-call", "functie d(x) { x * 2 }; stel e = 0; stel i = 0; zolang i < %s { i += 1; als i > 1 { } anders { e += 1; }; e += 10; }; [d(21), e, i]" % H0),
    ]
    # (6) while / if used as values and as arguments
    out += [
        ("ctl:if-as-arg", "functie f(a, b) { a - b }; f(als %s < %s { 1 } anders { 2 }, als %s < %s { 10 })" % (H0, H1, H1, H2)),
        ("ctl:if-in-array", "[als %s < %s { 1 } anders { 2 }, als %s == %s { 3 }, 4]" % (H0, H1, H0, H1)),
        ("ctl:if-cond-not-bool", 'print("a"); als %s { 1 }; print("b")' % H0),
        ("ctl:while-cond-not-bool", 'print("a"); zolang %s { 1 }; print("b")' % H0),
        ("ctl:while-value-neutral", "stel i = 0; stel x = [1, zolang i < %s { i += 1; i }, 3]; [lengte(x), x[0], x[2], i]" % H0),
        ("ctl:while-after-while", "stel i = 0; zolang i < %s { i += 1; }; stel j = 0; zolang j < %s { j += 2; }; [i, j]" % (H0, H1)),
        ("ctl:deep5", "stel t = 0; stel i = 0; zolang i < %s { i += 1; als i < %s { { als i == %s { t = t + 1; volgende; } anders { als t > %s { stop; }; }; }; t = t + 10; }; }; [i, t]"
         % (H0, H1, H2, H3)),
    ]
    return out


# ------------------------------------------------------------------ C12: calls
def fam_calls():
    out = []
    out += [
        # a function defined inside another function sees its own parameters / locals and the globals, never the
        # enclosing activation: names that are BOTH a global and a parameter/local of the enclosing function
        ("call:inner-fn-reads-global-not-outer-param", "stel k = 100 + %s; functie outer(pad, k) { functie inner(a) { a + k }; inner(1) + k }; outer(5, 7)" % H0),
        ("call:inner-fn-writes-global-not-outer-param", "stel teller = 0; functie outer(teller) { functie bump(a, b) { teller = teller + 5; teller }; bump(1, 2) + teller }; [outer(%s), teller]" % H0),
        ("call:inner-fn-reads-global-not-outer-local", "stel g = %s; functie outer() { stel x = 1; stel g = 50; functie inner(p, q, r) { stel l = p + q + r; l + g }; inner(1, 2, 3) + g }; [outer(), g]" % H0),
        ("call:inner-fn-value-escapes", "stel n = 3; functie mk(n) { functie(x) { x * n } }; stel f = mk(%s); f(2)" % H0),
        # a name declared with `functie` is an ordinary variable: assigning another function to it changes what a call runs
        ("call:reassigned-named-fn", "functie f(a) { a + 1 }; stel r1 = f(%s); f = functie(a) { a * 2 }; [r1, f(%s)]" % (H0, H0)),
        ("call:stub-then-replace-mutual", "functie oneven(n) { nee }; functie even(n) { als n == 0 { antwoord ja; }; oneven(n - 1) }; oneven = functie(n) { als n == 0 { antwoord nee; }; even(n - 1) }; [even(%s), oneven(%s), even(3)]" % (H0, H0)),
        ("call:wrapped-named-fn", "functie prijs(n) { n * 10 }; stel oud = prijs; prijs = functie(n) { oud(n) + 1 }; [prijs(%s), oud(%s)]" % (H0, H0)),
        ("call:reassigned-other-arity", "functie f(a) { a }; f = functie(a, b) { a - b }; f(%s, %s)" % (H0, H1)),
        ("call:reassigned-in-fn", "functie f() { 1 }; functie zet() { f = functie() { 2 }; 0 }; stel a = f(); zet(); [a, f()]"),
        ("call:empty-body-with-params", 'functie log(bericht, niveau) { }; stel t = 0; log("start", t); log(1, 2); t = t + 3; [t, log(%s, 0)]' % H0),
        ("call:params-only-no-locals", "functie kies(a, b, c) { b }; functie niets(a) { {} }; [kies(1, %s, 3), niets(%s), kies(niets(0), 2, 3)]" % (H0, H1)),
        ("call:locals-only-in-inner-block", "functie f(a) { { stel x = a + 1; { stel y = x * 2; a = y; }; }; a }; f(%s)" % H0),
        ("call:builtin-args-order", 'stel t = 0; functie n() { t = t + 1; t }; print("{} {} {}", n(), n(), n()); print("{}-{}", n(), [n(), n()]); [t, lengte([n(), n()])]'),
        ("call:builtin-args-order-nested", 'functie meld(x) { print("meld {}", x); x * 10 }; functie paar(a, b) { [a, b] }; print("{} en {}", meld(1), paar(meld(2), meld(3))); string(meld(4))'),
        ("call:builtin-arg-fails-after-effect", 'stel t = 0; functie n() { t = t + 1; print(t); t }; print("{} {}", n(), [1][n() + %s])' % H0),
        ("call:args-order", 'functie f(a, b, c) { a * 100 + b * 10 + c }; stel t = 0; functie n() { t = t + 1; t }; f(n(), n(), n())'),
        ("call:positional", "functie f(a, b, c, d) { [d, c, b, a] }; f(%s, %s, %s, 4)" % (H0, H1, H2)),
        ("call:locals-padded", "functie f(a) { stel b = a + 1; stel c = b + 1; stel d = c + 1; [a, b, c, d] }; f(%s)" % H0),
        ("call:fresh-activation", "functie f(n) { stel acc = n; als n > 0 { stel r = f(n - 1); acc = acc + r; }; acc }; f(%s)" % H0),
        ("call:recursion-fib", "functie fib(n) { als n < 2 { antwoord n; }; fib(n - 1) + fib(n - 2) }; fib(%s)" % H0),
        ("call:mutual", "functie even(n) { als n == 0 { antwoord ja; }; odd(n - 1) }; functie odd(n) { als n == 0 { antwoord nee; }; even(n - 1) }; functie even2(n) { n == 0 || n == 2 }; [even2(%s), 1]" % H0),
        ("call:mutual-globals", "stel odd = 0; functie even(n) { als n == 0 { antwoord ja; }; odd(n - 1) }; odd = functie(n) { als n == 0 { antwoord nee; }; even(n - 1) }; even(%s)" % H0),
        ("call:pending-operands", "functie f(x) { x * 2 }; 1 + f(%s) * 3 - f(f(%s))" % (H0, H1)),
        ("call:in-array", "functie f(x) { x + 1 }; [f(%s), 7, f(f(%s)), f(0)]" % (H0, H1)),
        ("call:in-args", "functie f(x, y) { x - y }; f(f(%s, 1), f(2, %s))" % (H0, H1)),
        ("call:non-first-operand", "functie f(x) { stel y = x * 2; y }; stel a = %s; a - f(a) - f(%s)" % (H0, H1)),
        ("call:first-class", "functie add(a, b) { a + b }; functie sub(a, b) { a - b }; functie ap(f, a, b) { f(a, b) }; [ap(add, %s, %s), ap(sub, %s, %s)]" % (H0, H1, H0, H1)),
        ("call:returned-fn", "functie mk() { functie(a) { a * 2 } }; stel g = mk(); g(%s)" % H0),
        ("call:fn-in-var", "stel f = functie(a, b) { a * b }; stel g = f; g(%s, %s)" % (H0, H1)),
        ("call:fn-chosen", "stel f = als %s < %s { functie(x) { x + 1 } } anders { functie(x) { x - 1 } }; f(10)" % (H0, H1)),
        ("call:iife", "functie(a) { a + 1 }(%s) + functie() { 2 }()" % H0),
        ("call:callers-locals-intact", "functie g(x) { stel p = x * 3; stel q = p + 1; q }; functie f(a) { stel b = a + 1; stel c = g(b); stel d = g(c); [a, b, c, d] }; f(%s)" % H0),
        ("call:callers-half-evaluated", "functie g(x) { stel p = 9; stel q = 8; x }; functie f(a) { [a, g(a + 1), a + g(a + 2) * g(3), a] }; f(%s)" % H0),
        ("call:arity-too-many", 'functie f(a) { a }; print("x"); f(%s, 2)' % H0),
        ("call:arity-too-few", 'functie f(a, b) { a }; print("x"); f(%s)' % H0),
        ("call:arity-zero", 'functie f() { 1 }; print("x"); f(%s)' % H0),
        ("call:not-callable", 'stel a = %s; print("x"); a()' % H0),
        ("call:return-in-loop-in-fn", "functie f(n) { stel i = 0; zolang ja { i += 1; als i > n { antwoord i * 10; }; }; 0 }; [f(%s), f(0)]" % H0),
        ("call:deep", "functie d(n) { als n == 0 { antwoord 0; }; 1 + d(n - 1) }; d(%s)" % H0),
        ("call:4params-4locals", "functie f(a, b, c, d) { stel e = a + b; stel g = c + d; stel h = e * g; stel i = h - a; [e, g, h, i] }; f(%s, %s, 3, 4)" % (H0, H1)),
        ("call:six-functions", "functie b0(x) { x * 2 }; functie a0(x) { b0(x) + 1 }; functie c0(x) { a0(x) - b0(x) }; functie d0(x, y) { c0(x) + c0(y) }; functie e0(x) { d0(x, x + 1) }; functie g0(x) { e0(x) * 2 }; [a0(%s), c0(%s), g0(%s)]" % (H0, H1, H0)),
        ("call:shadow-param", "stel a = 5; functie f(a) { a = a + 1; a }; [f(%s), a]" % H0),
        ("call:global-from-fn", "stel g = %s; functie f(x) { g = g + x; g }; [f(1), f(2), g]" % H0),
        ("call:array-arg-alias", "functie f(v) { v[0] = v[0] + 1; v }; stel a = [%s, 2]; stel b = f(a); [a[0], b[0], lengte(b)]" % H0),
    ]
    for k in range(0, 5):
        ps = ", ".join("p%d" % i for i in range(k))
        args = ", ".join([H0, H1, "3", "4"][:k])
        body = " + ".join(["p%d * %d" % (i, 10 ** i) for i in range(k)]) or "42"
        out.append(("call:params%d" % k, "functie f(%s) { stel l0 = 1; stel l1 = l0 + 1; %s + l1 }; f(%s)" % (ps, body, args)))
    return out


# ------------------------------------------------------------------ C09: scoping
def scope_pairing():
    """every container block x every inner construct whose body may be EMPTY: the container declares a name that shadows an
    outer one, the inner construct follows, and the name is read after the container - the outer variable must be back, and a
    name declared only inside must be gone (ReferenceError for the whole program)"""
    inner = [("empty-if", "als v > 0 { };"), ("empty-else", "als v > 100 { v = v + 1; } anders { };"), ("empty-loop", "zolang nee { };"),
             ("empty-fn", "functie leeg() { }; leeg();"), ("empty-block", "{ };"), ("nested-empty", "{ { }; als ja { } anders { }; };"),
             ("if-with-decl", "als v > 0 { stel w = v; v = w + 1; };"), ("empty-if-then-decl", "als ja { }; stel w = 3; v = v + w;")]
    containers = [("block", "{ stel v = 5; %s r = v; }"), ("if-branch", "als %s < %s { stel v = 5; %%s r = v; }" % (H0, H1)),
                  ("else-branch", "als %s < %s { r = 0; } anders { stel v = 5; %%s r = v; }" % (H0, H1)),
                  ("loop-body", "stel k = 0; zolang k < 2 { k += 1; stel v = 5 + k; %s r = v; }"),
                  ("fn-body", "functie f() { stel v = 5; %s r = v; v }; f()")]
    out = []
    for cn, c in containers:
        for inn, body in inner:
            out.append(("scope:pairing:%s:%s" % (cn, inn), "stel v = %s; stel r = 0; %s; [v, r]" % (H1, c % body)))
            out.append(("scope:pairing-gone:%s:%s" % (cn, inn), 'print("begin"); stel r = 0; %s; [r, v]' % (c % body)))
    return out


def fam_scoping():
    out = scope_pairing() + [
        # a NAMED function declared in a block / branch / loop body is a declaration of that block: it ends with the block and
        # does not disturb an outer variable of the same name (blocks with and without a `stel` of their own)
        ("scope:named-fn-in-branch-ends-with-it", "als %s < %s { functie dubbel(n) { n * 2 }; dubbel(1); }; dubbel(2)" % (H0, H1)),
        ("scope:named-fn-in-bare-block-ends-with-it", 'print("start"); { functie dubbel(n) { n * 2 }; print(dubbel(4)); }; print(dubbel(5))'),
        ("scope:named-fn-in-loop-shadows-only-inside", "stel hulp = 10; stel i = 0; zolang i < 2 { functie hulp(n) { n + %s }; i = i + 1; hulp(i); }; [hulp, i]" % H0),
        ("scope:named-fn-in-block-shadows-only-inside", "stel f = %s; stel r = 0; { functie f() { 7 }; r = f(); }; [f, r]" % H0),
        ("scope:named-fn-in-block-with-stel", "stel f = %s; stel r = 0; { stel pad = 1; functie f() { 7 }; r = f() + pad; }; [f, r]" % H0),
        ("scope:named-fn-in-else-branch", "stel g = 3; als %s < %s { g = 4; } anders { functie g() { 9 }; g(); }; g" % (H0, H1)),
        ("scope:named-fn-in-fn-body-block", "functie buiten(x) { stel h = x; { functie h() { 5 }; h(); }; h }; buiten(%s)" % H0),
        ("scope:shadow-block", "stel a = %s; { stel a = %s; a = a + 1; }; a" % (H0, H1)),
        ("scope:shadow-block-read", "stel a = %s; stel r = 0; { stel a = %s; r = a; }; [a, r]" % (H0, H1)),
        ("scope:redeclare-same", "stel a = %s; stel a = %s; a" % (H0, H1)),
        ("scope:redeclare-same-3", "stel a = %s; stel b = a; stel a = %s; stel c = a; stel a = 3; [a, b, c]" % (H0, H1)),
        ("scope:redeclare-in-fn", "functie f(a) { stel a = %s; stel b = a; stel a = b + 1; a }; f(%s)" % (H0, H1)),
        ("scope:redeclare-in-block", "stel r = 0; { stel a = %s; stel a = %s; r = a; }; r" % (H0, H1)),
        ("scope:depth4", "stel a = 1; { stel b = a + %s; { stel a = b + 1; { stel b = a + 1; { stel c = a + b; a = c; }; }; }; }; a" % H0),
        ("scope:sibling-blocks", "stel r = 0; { stel x = %s; r = r + x; }; { stel y = %s; stel x = y + 1; r = r + x; }; r" % (H0, H1)),
        ("scope:slot-reuse", "stel a = %s; { stel b = 1; { stel c = 2; }; stel d = %s; a = a + d + b; }; stel e = 7; [a, e]" % (H0, H1)),
        ("scope:fn-local-vs-global", "stel a = %s; functie f() { stel a = %s; a = a + 1; a }; [f(), a]" % (H0, H1)),
        ("scope:fn-sees-global", "stel a = %s; functie f() { a + 1 }; a = %s; f()" % (H0, H1)),
        ("scope:fn-param-shadows-global", "stel a = %s; functie f(a) { a + 1 }; [f(%s), a]" % (H0, H1)),
        ("scope:second-param-shadows-global", "stel n = %s; functie macht(g, n) { n + g }; [macht(1, %s), n]" % (H0, H1)),
        ("scope:third-param-shadows-global", "stel n = %s; stel m = 7; functie f(a, m, n) { stel r = n * 2; r + m + a }; [f(1, 2, %s), n, m]" % (H0, H1)),
        ("scope:param-shadows-top-level-function", "functie hulp() { 1 }; functie f(a, hulp) { hulp + a }; [f(1, %s), hulp()]" % H0),
        ("scope:param-named-like-own-function", "functie f(a, f) { f + a }; f(1, %s)" % H0),
        ("scope:fn-block-scopes", "functie f(n) { stel r = n; { stel n = r + 1; { stel r = n + 1; n = r; }; r = n; }; [r, n] }; f(%s)" % H0),
        ("scope:fn-in-block", "stel r = 0; { functie f(x) { x + %s }; r = f(1); }; r" % H0),
        ("scope:fn-in-block-reads-block-var", "stel t = %s; stel r = 0; { stel t = %s; stel f = functie() { t + 1 }; r = f(); }; [t, r]" % (H0, H1)),
        ("scope:fn-in-branch-reads-branch-var", 'print("a"); als %s < %s { stel geheim = 7; functie lees() { geheim }; print(lees()); } anders { stel ander = 8; functie lees() { ander + 1 }; print(lees()); }; 1' % (H0, H1)),
        ("scope:fn-in-loop-reads-loop-var", "stel teller = 100; stel i = 0; stel s = 0; zolang i < 3 { stel teller = i * 10 + %s; stel toon = functie() { teller }; s = s + toon(); i += 1; }; [s, teller]" % H0),
        ("scope:fn-in-block-writes-block-var", "stel c = %s; stel r = 0; { stel c = 0; functie inc() { c = c + %s; c }; inc(); inc(); r = c; }; [c, r]" % (H0, H1)),
        ("scope:fn-in-fn-in-block-reads-block-var", "stel r = 0; { stel k = %s; functie a() { functie b() { k + 1 }; b() }; r = a(); }; r" % H0),
        ("scope:fn-in-nested-block-reads-both", "stel r = 0; { stel p = %s; { stel q = %s; functie som() { p + q }; r = som(); }; }; r" % (H0, H1)),
        ("scope:fn-in-fn", "functie outer(a) { stel g = functie(b) { b * 2 }; g(a) + 1 }; outer(%s)" % H0),
        ("scope:recursion-locals", "functie f(n) { stel mine = n * 10; als n > 0 { f(n - 1); }; mine }; f(%s)" % H0),
        ("scope:loop-body-decl", "stel s = 0; stel i = 0; zolang i < %s { stel sq = i * i; s = s + sq; i += 1; }; s" % H0),
        ("scope:loop-body-redecl", "stel s = 0; stel i = 0; zolang i < 3 { stel v = i; stel w = v + %s; stel v = w; s = s + v; i += 1; }; s" % H0),
        ("scope:if-branch-decl", "stel r = 0; als %s < %s { stel v = 1; r = v; } anders { stel v = 2; stel w = v + 1; r = w; }; r" % (H0, H1)),
        ("scope:same-name-everywhere", "stel x = %s; functie f(x) { { stel x = x + 1; x } }; { stel x = f(x); x = x + 1; }; [x, f(x)]" % H0),
        ("scope:assign-outer-from-inner", "stel a = 0; { { a = %s; }; stel a = 5; a = 6; }; a" % H0),
        ("scope:named-fn-redeclare", "functie f() { 1 }; functie f() { 2 }; f() + %s" % H0),
        ("scope:many-globals", "stel a = 1; stel b = 2; stel c = %s; stel d = 4; stel e = 5; { stel f = 6; stel g = 7; c = c + g; }; stel h = 8; [a, b, c, d, e, h]" % H0),
    ]
    return out


def fam_undeclared():
    """one name replaced by an undeclared one at each position: rejected before any output"""
    base = [
        'print("a"); stel a = 1; stel b = a + 1; print("b"); {USE}',
        'print("a"); stel a = 1; { stel b = 2; }; {USE}',
        'print("a"); functie f(p) { stel l = p; l }; f(1); {USE}',
        'print("a"); functie f(p) { {USE} }; 1',
        'print("a"); functie f(p) { stel l = p; { stel m = l; }; {USE} }; f(1)',
        'print("a"); stel a = 1; functie g() { stel z = 1; z }; functie f() { {USE} }; 1',
        'print("a"); stel i = 0; zolang i < 2 { stel v = i; i += 1; }; {USE}',
        'print("a"); als ja { stel v = 1; } anders { stel w = 2; }; {USE}',
        'print("a"); functie outer() { stel secret = 1; functie inner() { {USE} }; inner() }; outer()',
        'print("a"); functie caller() { stel mine = 1; callee() }; functie callee() { {USE} }; 1',
        # code after an unconditional exit is still part of the program: its names must resolve too
        'print("a"); functie f(p) { antwoord p; {USE} }; f(1)',
        'print("a"); stel i = 0; zolang i < 1 { i += 1; stop; {USE} }; i',
        'print("a"); stel i = 0; zolang i < 1 { i += 1; volgende; {USE} }; i',
        'print("a"); functie f(p) { als p > 0 { antwoord 1; {USE} }; 2 }; f(1)',
    ]
    uses = ["b", "b + 1", "l", "m", "z", "v", "w", "secret", "mine", "nope", "nope = 1", "nope[0]", "nope()", "a = nope", "[1, nope]", "p"]
    out = []
    for i, b in enumerate(base):
        for u in uses:
            out.append(("undecl:%d:%s" % (i, u.replace(" ", "")), b.replace("{USE}", u)))
    return out


# ------------------------------------------------------------------ C13: arrays and strings
def fam_sequences():
    out = []
    for n in range(0, 5):
        arr = "[" + ", ".join(str(10 + i) for i in range(n)) + "]"
        out.append(("seq:arr-get:%d" % n, 'stel a = %s; print("s"); a[%s - 3]' % (arr, H0)))
        out.append(("seq:arr-get-neg:%d" % n, 'stel a = %s; print("s"); a[0 - %s]' % (arr, H0)))
        out.append(("seq:arr-set:%d" % n, 'stel a = %s; print("s"); a[%s - 3] = %s; a' % (arr, H0, H1)))
        out.append(("seq:arr-set-unchanged:%d" % n, 'stel a = %s; stel b = a; stel i = %s - 3; als i >= %d || i < 0 - %d { print(a); }; a[i] = 99; b' % (arr, H0, n, n)))
    for s in ["", "a", "ab", "é", "aé", "héllo", "€uro", "🇳🇱", "a🏆b"]:
        out.append(("seq:str-get:" + s, 'stel s = "%s"; print("s"); s[%s - 3]' % (s, H0)))
        out.append(("seq:str-set:" + s, 'stel s = "%s"; print("s"); s[%s - 3] = "Z"; [s, lengte(s)]' % (s, H0)))
        out.append(("seq:str-len:" + s, 'stel s = "%s"; [lengte(s), lengte(s) > %s]' % (s, H0)))
    # an index that is not an integer is a TypeError for reading and for assignment, on lists and on text, whatever the value
    # assigned is - and the (aliased) container is unchanged
    for cn, c, val in (("arr", "[1, 2]", "9"), ("str", '"a€b"', '"X"')):
        for inn, idx in (("true", "ja"), ("false", "nee"), ("float", "1.0"), ("text", '"0"'), ("list", "[0]"), ("fn", "functie() { 0 }"), ("null", "als nee { 0 }")):
            out.append(("seq:index-type:%s:get:%s" % (cn, inn), 'stel c = %s; print("x"); c[%s]' % (c, idx)))
            out.append(("seq:index-type:%s:set:%s" % (cn, inn), 'stel c = %s; stel d = c; print("x"); c[%s] = %s; [c, d]' % (c, idx, val)))
    out += [
        ("seq:alias", "stel a = [1, 2, 3]; stel b = a; b[%s] = %s; [a, b]" % (H0, H1)),
        ("seq:alias-nested", "stel in = [1, 2]; stel out = [in, in, 3]; in[%s] = %s; stel x = out[0]; stel y = out[1]; [x[0], x[1], y[0], y[1]]" % (H0, H1)),
        ("seq:alias-via-fn", "functie set(v, i, x) { v[i] = x; 0 }; stel a = [1, 2, 3]; set(a, %s, %s); a" % (H0, H1)),
        ("seq:alias-caller2", "functie fill(v) { v[0] = %s; v[1] = %s; 0 }; functie mk() { stel v = [0, 0]; fill(v); v }; mk()" % (H0, H1)),
        ("seq:nested-write", "stel m = [[1, 2], [3, 4]]; stel r = m[%s]; r[%s] = 9; m" % (H0, H1)),
        ("seq:fresh-literals", "functie mk() { [0, 0] }; stel a = mk(); stel b = mk(); a[0] = %s; [a, b]" % H0),
        ("seq:literal-in-loop", "stel acc = []; stel i = 0; stel last = [0]; zolang i < 2 { stel v = [i]; v[0] = v[0] + %s; last = v; i += 1; }; last" % H0),
        ("seq:index-types", 'stel a = [1, 2]; print("x"); a[%s < %s]' % (H0, H1)),
        ("seq:index-float", 'stel a = [1, 2]; print("x"); a[1.0]'),
        ("seq:index-str", 'stel a = [1, 2]; print("x"); a["0"]'),
        ("seq:index-on-int", 'stel a = %s; print("x"); a[0]' % H0),
        ("seq:index-on-bool", 'stel a = %s < 3; print("x"); a[0] = 1' % H0),
        ("seq:str-set-nonstr", 'stel s = "abc"; print("x"); s[%s] = 1; s' % H0),
        ("seq:str-set-nonstr-oob", 'stel s = "abc"; print("x"); s[5] = 1; s'),
        ("seq:str-set-self", 'stel s = "ab"; s[%s] = s; s' % H0),
        ("seq:str-set-multi", 'stel s = "abc"; s[%s] = "xyz"; [s, lengte(s)]' % H0),
        ("seq:str-set-empty", 'stel s = "abc"; s[%s] = ""; [s, lengte(s)]' % H0),
        ("seq:str-alias", 'stel s = "abc"; stel t = s; t[%s] = "Z"; [s, t]' % H0),
        ("seq:str-literal-twice", 'stel a = "ab"; stel b = "ab"; a[0] = "x"; [a, b]'),
        ("seq:str-literal-loop", 'stel i = 0; stel r = []; stel out = ""; zolang i < 2 { stel s = "ab"; out = s[0]; s[0] = "x"; i += 1; }; out'),
        ("seq:stored-types", 'stel a = [0, 0, 0, 0, 0, 0]; a[0] = ja; a[1] = 1.5; a[2] = "s"; a[3] = [1]; a[4] = functie() { 1 }; a[5] = als nee { 1 }; [type(a[0]), type(a[1]), type(a[2]), type(a[3]), type(a[4]), type(a[5])]'),
        ("seq:selection-sort", "functie sorteer(a) { stel i = 0; zolang i < lengte(a) { stel min = i; stel j = i + 1; zolang j < lengte(a) { als a[j] < a[min] { min = j; }; j += 1; }; stel tmp = a[i]; a[i] = a[min]; a[min] = tmp; i += 1; }; a }; sorteer([%s, %s, 2])" % (H0, H1)),
        ("seq:swap", "stel c = [1, 2, 3]; c[0] = c[0 - 1]; c[%s] = c[%s]; c" % (H0, H1)),
        ("seq:lengte-args", 'print("x"); lengte([1], [2])'),
        ("seq:lengte-int", 'print("x"); lengte(%s)' % H0),
        # the value read from a string is a NEW string: writing through either side is invisible to the other
        # (strings of exactly one character, the first / last character, non-ASCII, inside a list, passed to a function)
        ("seq:str-char-is-fresh:one", 'stel s = "k"; stel c = s[%s - 1]; c[0] = "xy"; [s, c, lengte(s)]' % H0),
        ("seq:str-char-is-fresh:one-src", 'stel s = "é"; stel c = s[0]; s[0] = "zz"; [s, c, lengte(c)]'),
        ("seq:str-char-is-fresh:two", 'stel s = "ab"; stel c = s[%s]; c[0] = "Q"; stel d = s[%s]; s[0] = "w"; [s, c, d]' % (H0, H1)),
        ("seq:str-char-is-fresh:nested", 'stel w = ["a", "bc", ""]; stel u = w[0]; stel c = u[0]; c[0] = "Q"; stel v = w[1]; stel d = v[0 - 1]; d[0] = "R"; [w, c, d]'),
        ("seq:str-char-is-fresh:fn", 'functie eerste(t) { t[0] }; functie zet(t) { t[0] = "!"; t }; stel s = "x"; stel c = eerste(s); zet(c); [s, c]'),
        ("seq:str-char-is-fresh:loop", 'stel s = "a"; stel acc = []; stel i = 0; zolang i < 2 { stel c = s[0]; c[0] = "n"; i += 1; }; s'),
        # equality of text is by content, also after the text was changed in place
        ("seq:str-eq-after-set", 'stel a = "kat"; a[0] = "m"; stel b = "mat"; [a == "mat", "mat" == a, a != "mat", a == b, a == "kat", a == a]'),
        ("seq:str-eq-after-set-sym", 'stel a = "kat"; a[%s] = "m"; [a == "mat", a == "kmt", a == "kam", a == "kat", lengte(a)]' % H0),
        ("seq:str-eq-after-set-len", 'stel a = "ab"; a[1] = "bcd"; stel c = "abcd"; c[3] = "d"; [a == "abcd", a == c, c == "abcd", a == "ab"]'),
        ("seq:list-literal-is-fresh", "functie mk() { [1, 2] }; stel a = mk(); stel b = mk(); a[%s] = 9; [a, b]" % H0),
        ("seq:list-elem-array-is-shared", "stel in = [1]; stel a = [in, in]; stel x = a[%s]; x[0] = 5; [a, in]" % H0),
    ]
    return out


# ------------------------------------------------------------------ C01: compositions of features
def fam_compose():
    out = [
        ("mix:loop-in-fn-indexing", "functie mk(n) { [n, n + 1, n + 2] }; functie som(v) { stel s = 0; stel i = 0; zolang i < lengte(v) { s = s + v[i]; i += 1; }; s }; som(mk(%s))" % H0),
        ("mix:euler1", "functie p(n) { stel som = 0; stel i = 1; zolang i < n { als i %% 3 == 0 || i %% 5 == 0 { som += i; }; i += 1; }; antwoord som; }; p(%s)" % H0),
        ("mix:juffen", 'functie bevat(n, g) { zolang n > 0 { als n %% 10 == g { antwoord ja; }; n /= 10; }; nee }; stel n = %s; als n %% 7 == 0 || bevat(n, 7) { print("Juf!"); } anders { print(n); }; n' % H0),
        ("mix:fib-loop", "stel fib = functie(n) { stel a = 0; stel b = 1; stel c = a + b; stel i = 2; zolang i < n { i += 1; a = b; b = c; c = a + b; }; antwoord c; }; fib(%s)" % H0),
        ("mix:print-order", 'functie f(x) { print("f {}", x); x + 1 }; print("start"); stel r = f(%s) + f(%s); print("r = {}", r); r' % (H0, H1)),
        ("mix:error-after-output", 'print("a"); stel x = %s; print("b {}", x); stel y = 10 / (x - %s); print("c"); y' % (H0, H1)),
        ("mix:error-in-fn", 'functie f(v, i) { print("in"); v[i] }; print("a"); stel r = f([1, 2], %s); print("b"); r' % H0),
        ("mix:error-in-loop", 'stel i = 0; zolang i < 5 { print(i); als i == %s { [1][i]; }; i += 1; }; i' % H0),
        ("mix:if-value-types", "stel x = als %s < %s { 1 } anders { ja }; type(x)" % (H0, H1)),
        ("mix:builtins", '[bool(%s), int(%s < %s), bool(0 - %s), type(%s), lengte([%s, 2])]' % (H0, H0, H1, H0, H0, H0)),
        ("mix:print-values", 'print(%s); print("{} {}", %s < %s, [%s, "s", 1.5, ja]); print(); print("{}"); print("no placeholder", 1)' % (H0, H0, H1, H1)),
        ("mix:print-braces-in-arg", 'print("{} {}", "{}", %s)' % H0),
        ("mix:voorbeeld", 'stel a = 1; a = 2; functie is_even(n) { n %% 2 == 0 }; als is_even(%s) { print("even"); }; stel b = als nee { 1 } anders { 2 }; zolang b > 0 { b -= 1; als b == 1 { stop; }; }; print("b = {}", b); stel tekst = "🇳🇱💖"; tekst[-1] = "🏆"; print(tekst); stel c = [1, 2, 3]; c[0] = c[-1]; print(c); c' % H0),
        ("mix:closure-free", "stel k = %s; functie addk(x) { x + k }; functie twice(f, x) { f(f(x)) }; k = k + 1; twice(addk, 1)" % H0),
        ("mix:accumulate-array", "stel v = [0, 0, 0]; stel i = 0; zolang i < 3 { v[i] = i * %s; i += 1; }; v" % H0),
        ("mix:nested-data", 'stel p = [["a", 1], ["b", %s]]; stel q = p[1]; [q[0], q[1] + 1, lengte(p)]' % H0),
        ("mix:string-build", 'stel s = "abc"; stel i = 0; zolang i < lengte(s) { als i == %s { s[i] = "X"; }; i += 1; }; s' % H0),
        ("mix:float-int", "stel f = float(3) / 2.0; [f, int(f), int(2.9), int(0.0 - 2.9), float(ja), bool(0.5), string(12), string(1.5), int(\"42\"), float(\"2.5\")]"),
        ("mix:last-value", "1; 2; stel a = 3; a + %s" % H0),
        ("mix:block-value", "stel a = %s; { a + 1; a + 2 }; a * 2" % H0),
    ]
    return out


# ------------------------------------------------------------------ C05 (back end): boundary programs
def fam_boundary():
    big = "1152921504606846975"
    out = [
        ("bnd:max-plus", "%s + %s" % (big, H0)),
        ("bnd:min-minus", "0 - %s - 1 - %s" % (big, H0)),
        ("bnd:max-times", "%s * %s" % (big, H0)),
        ("bnd:min-div-neg1", "(0 - %s - 1) / (0 - %s)" % (big, H0)),
        ("bnd:min-rem-neg1", "(0 - %s - 1) %% (0 - %s)" % (big, H0)),
        ("bnd:neg-min", "-(0 - %s - %s)" % (big, H0)),
        ("bnd:div-zero", "7 / (%s - %s)" % (H0, H1)),
        ("bnd:rem-zero", "7 %% (%s - %s)" % (H0, H1)),
        ("bnd:div-zero-local", "functie f(n) { n / 0 }; f(%s)" % H0),
        ("bnd:rem-zero-local", "functie f(n) { 5 %% n }; f(%s - %s)" % (H0, H1)),
        ("bnd:float-div-zero", "[1.0 / 0.0, 0.0 / 0.0, 1.0 % 0.0]"),
        ("bnd:signed-zero-literals", "stel p = 0.0; stel m = -0.0; [1.0 / m, 1.0 / p, 1.0 / -0.0, 1.0 / 0.0, p == m, 1.0 / (0.0 * -1.0)]"),
        ("bnd:signed-zero-literals-rev", "stel m = -0.0; stel p = 0.0; functie inv(x) { 1.0 / x }; [inv(m), inv(p), inv(-0.0), inv(0.0)]"),
        ("bnd:negative-literals-pooled", "stel a = -1.5; stel b = 1.5; stel c = -7; stel d = 7; functie f(x) { [x - 1.5, x + -1.5, -7 + x * 0.0] }; [a + b, c + d, -1.5 == a, f(1.5), -(-7)]"),
        ("bnd:close-float-literals", "stel a = 0.3; stel b = 0.30000000000000004; stel c = 0.1 + 0.2; [a == b, b == c, a == c, b - a > 0.0, string(b)]"),
        ("bnd:nan-ordering", "stel n = 0.0 / 0.0; [n < 1.0, n <= 1.0, n > 1.0, n >= 1.0, 1.0 < n, 1.0 >= n, n == n, n != n, n < n]"),
        ("bnd:inf-ordering", "stel i = 1.0 / 0.0; stel m = 0.0 - i; [i > 1.0, m < i, i == i, i - i < 1.0, i + m >= 0.0, m <= m, 0.0 * i > 1.0]"),
        ("bnd:nan-negated-comparisons", "stel n = 0.0 / 0.0; [!(n < 1.0), !(n <= 1.0), !(n > 1.0), !(n >= 1.0), !(1.0 < n), !(n == n), !(n != n), !(2.0 < 1.0), !(1.0 < 2.0)]"),
        ("bnd:nan-negated-in-fn", "functie chk(x, g) { als !(x < g) { antwoord 1; }; als !(x >= g) { antwoord 2; }; 3 }; stel n = 0.0 / 0.0; [chk(n, 10.0), chk(5.0, 10.0), chk(50.0, 10.0)]"),
        ("bnd:nan-same-object", "stel n = 0.0 / 0.0; stel kopie = n; functie zelf(x) { [x == x, x != x] }; [n == n, n != n, n == kopie, zelf(n), zelf(1.5), zelf(\"s\"), zelf(3)]"),
        ("bnd:nan-in-condition", 'stel n = 0.0 / 0.0; stel k = 0; zolang n < 1.0 { k += 1; als k > 2 { stop; } }; als n >= 0.0 { print("ge") } anders { print("niet ge") }; k'),
        ("bnd:self-init-global", "stel x = x"),
        ("bnd:self-init-global-arith", 'print("a"); stel x = x + 1'),
        ("bnd:return-top", "antwoord %s" % H0),
        ("bnd:return-top-in-if", "als %s < %s { antwoord 1; }; 2" % (H0, H1)),
        ("bnd:return-top-in-loop", "zolang ja { antwoord 1; }"),
        ("bnd:stop-top", 'print("a"); stop'),
        ("bnd:continue-top", 'print("a"); volgende'),
        ("bnd:stop-in-fn-in-loop", "stel i = 0; zolang i < 2 { i += 1; functie f() { stop; }; f(); }; i"),
        ("bnd:continue-in-fn-in-loop", "stel i = 0; zolang i < 2 { i += 1; functie f() { volgende; }; f(); }; i"),
        ("bnd:stop-in-if-top", "als %s < %s { stop; }; 1" % (H0, H1)),
        ("bnd:array-eq", "[1] == [%s]" % H0),
        ("bnd:array-lt", "[1] < [%s]" % H0),
        ("bnd:fn-lt", "functie f() { 1 }; functie g() { 2 }; stel a = f; stel b = g; a < b"),
        ("bnd:fn-eq", "functie f() { 1 }; stel a = f; stel b = f; [type(a), type(b)]"),
        ("bnd:nonascii-index", '"é"[%s]' % H0),
        ("bnd:nonascii-index2", 'stel s = "🇳🇱"; [s[%s], lengte(s)]' % H0),
        ("bnd:int-of-big-float", "int(1000000000000000000000.0)"),
        # an identity element written as a literal next to a LOCAL variable is still an operation: the operand types are checked
        ("bnd:identity-literal:add:local-lit:float", 'functie f(x) { print("in"); x + 0 }; f(1.5)'),
        ("bnd:identity-literal:add:lit-local:float", 'functie f(x) { print("in"); 0 + x }; f(1.5)'),
        ("bnd:identity-literal:add:local-lit:text", 'functie f(x) { print("in"); x + 0 }; f("abc")'),
        ("bnd:identity-literal:add:lit-local:text", 'functie f(x) { print("in"); 0 + x }; f("abc")'),
        ("bnd:identity-literal:add:local-lit:bool", 'functie f(x) { print("in"); x + 0 }; f(ja)'),
        ("bnd:identity-literal:add:lit-local:bool", 'functie f(x) { print("in"); 0 + x }; f(ja)'),
        ("bnd:identity-literal:add:local-lit:list", 'functie f(x) { print("in"); x + 0 }; f([1])'),
        ("bnd:identity-literal:add:lit-local:list", 'functie f(x) { print("in"); 0 + x }; f([1])'),
        ("bnd:identity-literal:add:op-assign", 'functie f(x) { x += 0; x }; [f(%s), f(2.5)]' % H0),
        ("bnd:identity-literal:sub:local-lit:float", 'functie f(x) { print("in"); x - 0 }; f(1.5)'),
        ("bnd:identity-literal:sub:local-lit:text", 'functie f(x) { print("in"); x - 0 }; f("abc")'),
        ("bnd:identity-literal:sub:local-lit:bool", 'functie f(x) { print("in"); x - 0 }; f(ja)'),
        ("bnd:identity-literal:sub:local-lit:list", 'functie f(x) { print("in"); x - 0 }; f([1])'),
        ("bnd:identity-literal:sub:op-assign", 'functie f(x) { x -= 0; x }; [f(%s), f(2.5)]' % H0),
        ("bnd:identity-literal:mul:local-lit:float", 'functie f(x) { print("in"); x * 1 }; f(1.5)'),
        ("bnd:identity-literal:mul:lit-local:float", 'functie f(x) { print("in"); 1 * x }; f(1.5)'),
        ("bnd:identity-literal:mul:local-lit:text", 'functie f(x) { print("in"); x * 1 }; f("abc")'),
        ("bnd:identity-literal:mul:lit-local:text", 'functie f(x) { print("in"); 1 * x }; f("abc")'),
        ("bnd:identity-literal:mul:local-lit:bool", 'functie f(x) { print("in"); x * 1 }; f(ja)'),
        ("bnd:identity-literal:mul:lit-local:bool", 'functie f(x) { print("in"); 1 * x }; f(ja)'),
        ("bnd:identity-literal:mul:local-lit:list", 'functie f(x) { print("in"); x * 1 }; f([1])'),
        ("bnd:identity-literal:mul:lit-local:list", 'functie f(x) { print("in"); 1 * x }; f([1])'),
        ("bnd:identity-literal:mul:op-assign", 'functie f(x) { x *= 1; x }; [f(%s), f(2.5)]' % H0),
        ("bnd:identity-literal:div:local-lit:float", 'functie f(x) { print("in"); x / 1 }; f(1.5)'),
        ("bnd:identity-literal:div:local-lit:text", 'functie f(x) { print("in"); x / 1 }; f("abc")'),
        ("bnd:identity-literal:div:local-lit:bool", 'functie f(x) { print("in"); x / 1 }; f(ja)'),
        ("bnd:identity-literal:div:local-lit:list", 'functie f(x) { print("in"); x / 1 }; f([1])'),
        ("bnd:identity-literal:div:op-assign", 'functie f(x) { x /= 1; x }; [f(%s), f(2.5)]' % H0),
        ("bnd:int-of-big-text", 'int("9000000000000000000")'),
        # int(float) at the ends of the integer range: 2^60 - 1 is not a float (it rounds to 2^60, which is out of range); the
        # largest float below 2^60 is 2^60 - 128; -2^60 is MIN_INT itself; the next float below it is -2^60 - 256
        ("bnd:int-of-float-max-roundtrip", 'print("a"); int(float(1152921504606846975))'),
        ("bnd:int-of-float-two-pow-60", 'print("a"); int(1152921504606846976.0)'),
        ("bnd:int-of-float-just-below-max", "[int(1152921504606846848.0), int(float(1152921504606846848)), int(float(576460752303423488))]"),
        ("bnd:int-of-float-min", "stel lo = 0 - 1152921504606846975 - 1; [int(float(lo)) == lo, int(0.0 - 1152921504606846976.0)]"),
        ("bnd:int-of-float-just-below-min", 'print("a"); int(0.0 - 1152921504606847232.0)'),
        ("bnd:int-of-float-computed-two-pow-60", 'stel f = 1.0; stel i = 0; zolang i < 60 { f = f * 2.0; i += 1; }; print("a"); int(f)'),
        ("bnd:int-of-float-computed-just-below", "stel f = 1.0; stel i = 0; zolang i < 59 { f = f * 2.0; i += 1; }; [int(f), int(f + f - 128.0), int(0.0 - f - f)]"),
        ("bnd:int-of-huge-text", 'int("99999999999999999999999")'),
        ("bnd:int-of-text", '[int("12"), int(" 7 "), int("-3")]'),
        ("bnd:int-of-bad-text", 'print("a"); int("twaalf")'),
        ("bnd:float-of-bad-text", 'print("a"); float("x")'),
        ("bnd:string-of-array", 'print("a"); string([1])'),
        ("bnd:bool-of-fn", 'print("a"); bool(functie() { 1 })'),
        ("bnd:builtin-arity", 'print("a"); int(1, 2)'),
        ("bnd:builtin-arity0", 'print("a"); type()'),
        ("bnd:call-null", 'stel a = als nee { 1 }; print("a"); a()'),
        ("bnd:deep-recursion", "functie d(n) { als n == 0 { antwoord 0; }; 1 + d(n - 1) }; d(30)"),
        ("bnd:many-locals", "functie f(a) { " + " ".join("stel v%d = a + %d;" % (i, i) for i in range(20)) + " v19 + v0 }; f(%s)" % H0),
        ("bnd:many-args", "functie f(" + ", ".join("a%d" % i for i in range(12)) + ") { a0 + a11 }; f(" + ", ".join([H0] + [str(i) for i in range(1, 12)]) + ")"),
        ("bnd:assign-to-literal", "1 = 2"),
        ("bnd:call-literal", "1(2)"),
        ("bnd:empty", ""),
        ("bnd:only-comment", "// niets"),
        # more than 256 operands pending at once in one activation (long literals, long argument lists, deep right-nesting)
        ("bnd:array-literal-270", "stel a = [" + ", ".join(str(i) for i in range(270)) + "]; [lengte(a), a[%s], a[269]]" % H0),
        ("bnd:array-literal-270-in-call", "functie f(x, l) { [x, lengte(l), l[0 - 1]] }; f(%s, [" % H0 + ", ".join(str(i % 7) for i in range(270)) + "])"),
        ("bnd:call-200-args", "functie f(" + ", ".join("p%d" % i for i in range(200)) + ") { p0 + p199 }; 5 + f(" + ", ".join([H0] + [str(i) for i in range(1, 200)]) + ")"),
        ("bnd:right-nested-arith-260", "stel x = %s; " % H0 + "1 + (" * 260 + "x" + ")" * 260),
        ("bnd:nested-pending-array-call", "functie f(a, b) { a + b }; [1, 2, [3, 4, f(5, [" + ", ".join("0" for _ in range(260)) + "][%s])]]" % H0),
        ("bnd:empty-fn", "functie f() { }; f()"),
        ("bnd:empty-fn-with-params", 'print("a"); functie log(bericht, niveau) { }; log("start", %s); print("b"); log(1, 2)' % H0),
        ("bnd:empty-fn-with-params-nested-block", "functie f(a, b, c) { { } }; functie g(a) { { { } } }; [f(1, 2, %s), g(0)]" % H0),
        ("bnd:empty-if-else", "als %s < %s { } anders { }" % (H0, H1)),
        ("bnd:empty-while", "stel i = 0; zolang i < 0 { }; i"),
        ("bnd:nested-empty-blocks", "{ { { } } }; { }; 1"),
    ]
    return out


# ------------------------------------------------------------------ C14 (S side): builtins on symbolic ints / bools
def fam_builtins():
    out = [
        ("blt:bool-int", "[bool(%s), bool(0 - %s), bool(%s - %s)]" % (H0, H0, H0, H1)),
        ("blt:int-bool", "[int(%s < %s), int(ja), int(nee)]" % (H0, H1)),
        ("blt:int-id", "int(0 - %s) + int(%s)" % (H0, H1)),
        ("blt:bool-id", "bool(%s == %s)" % (H0, H1)),
        ("blt:type-names", '[type(als nee { 1 }), type(ja), type(%s), type(1.5), type("s"), type([1]), type(functie() { 1 })]' % H0),
        ("blt:lengte", '[lengte(""), lengte("héé"), lengte([]), lengte([1, [2, 3]])]'),
        ("blt:print-placeholders", 'print("{} + {} = {}", %s, %s, %s + %s)' % (H0, H1, H0, H1)),
        ("blt:print-too-few", 'print("{} {} {}", %s)' % H0),
        ("blt:print-too-many", 'print("{}", %s, %s)' % (H0, H1)),
        ("blt:print-nonstring-first", "print(%s, 2); print(%s < %s, 1); print([1, 2]); print(als nee { 1 })" % (H0, H0, H1)),
        ("blt:print-literal-braces", 'print("{ } {{}} {x}", %s)' % H0),
        ("blt:print-result-null", "stel r = print(1); type(r)"),
        ("blt:bool-shapes", '[bool(als nee { 1 }), bool(ja), bool(nee), bool(0.0), bool(0.1), bool(0.0 - 0.1), bool(""), bool(" "), bool([]), bool([0])]'),
        ("blt:int-shapes", '[int(als nee { 1 }), int(1.9), int(0.0 - 1.9), int("5"), int(" 5 "), int("-5")]'),
        ("blt:float-shapes", '[float(als nee { 1 }), float(ja), float(nee), float(3), float("1.5"), float(" 2 ")]'),
        ("blt:string-shapes", '[string(als nee { 1 }), string(12), string(0 - 7), string(1.5), string(2.0), string("x")]'),
        ("blt:string-of-text-is-the-same-text", 'stel s = "abc"; stel t = string(s); t[0] = "x"; stel u = string(string(t)); u[1] = "y"; [s, t, u, s == t]'),
        ("blt:own-type-conversions", 'stel f = 1.5; stel l = [f]; [float(f) == f, float(l[0]), int(7) == 7, int(0 - %s), bool(ja), bool(%s < %s), string(""), lengte(string("héé"))]' % (H0, H0, H1)),
        ("blt:roundtrip", "[int(string(%s)) , int(string(0 - %s))]" % ("123456789012345678", "1152921504606846975")),
    ]
    for b in ("type", "bool", "int", "float", "string", "lengte"):
        out.append(("blt:arity0:" + b, 'print("x"); %s()' % b))
        out.append(("blt:arity2:" + b, 'print("x"); %s(1, 2)' % b))
        out.append(("blt:of-fn:" + b, 'print("x"); %s(functie() { 1 })' % b))
        out.append(("blt:of-arr:" + b, 'print("x"); %s([1, 2])' % b))
    out += [
        ("blt:print-array-empty-elements", 'functie niets() { }; print("{}", ["", "a", "b"]); print(["", ""]); print([["", 2], 3]); print([niets(), 1, 2]); print(["a", "", "b", niets()]); [string(["", 1]), string([niets()])]'),
        ("blt:print-self-containing-list", 'stel a = [1, 0]; a[1] = a; print(a); print("{} {}", [a], 2); stel b = [a, 2]; a[0] = b; print(b); stel s = [3]; print([s, s, [s]]); lengte(a)'),
        ("blt:print-array-nested", 'print([[], [[]], [1, [2, [3, "x"]]], "s"]); print("{}-{}", [1.5, ja], [nee, [0 - 1]]); string([[1, 2], "t", [ja]])'),
    ]
    out += [
        ("blt:int-text-roundtrip-big", "stel n = 9007199254740993; stel m = 0 - 9007199254740995; [int(string(n)) == n, int(string(n)), int(string(m)) == m, int(string(m)), string(n)]"),
        ("blt:int-text-roundtrip-ends", 'stel hi = 1152921504606846975; stel lo = 0 - hi - 1; [int(string(hi)) == hi, int(string(lo)) == lo, int("1152921504606846975"), int("-1152921504606846976"), string(lo)]'),
        ("blt:int-text-roundtrip-mid", 'stel a = 1152921504606846974; stel b = 576460752303423489; [int(string(a)), int(string(b)), int("0"), int("-0"), int("007")]'),
    ]
    # number -> text -> number on floats whose shortest spelling needs 16-17 significant digits (concrete values: the text of
    # a float is outside what the solver decides, DESIGN.md 4.3-5; the real interpreter must agree with the reference spelling)
    out += [
        ("blt:float-text-17-digits", "stel x = 0.1 + 0.2; stel y = 1.0 / 3.0; [string(x), float(string(x)) == x, string(y), float(string(y)) == y]"),
        ("blt:float-text-large", "stel g = 123456789.0 * 987654.321; [string(g), float(string(g)) == g, string(0.0 - g)]"),
        ("blt:float-text-small", "stel t = 1.0 / 3000000.0; [string(t), float(string(t)) == t]"),
        ("blt:float-print-17-digits", 'print(0.1 + 0.2); print("{} en {}", 1.0 / 3.0, 2.5); print([0.7 * 3.0, 1.1 * 1.1])'),
        # whole-number floats beyond the 64-bit integers are spelled as a plain run of digits; digit-only text is float text too
        ("blt:float-text-huge", 'stel g = 10000000000000000000.0; stel a = 1000000000000000000.0; stel b = a * a; stel c = b * b; stel d = c * c; stel h = d * d; [string(g), float(string(g)) == g, float(string(0.0 - g)) == 0.0 - g, float(string(h)) == h, lengte(string(h))]'),
        ("blt:float-of-digit-text", '[float("12"), float("-7"), 1.0 / float("-0"), float("9223372036854775807"), float("9223372036854775808"), float("-9223372036854775809"), float("123456789012345678901234567890"), float("007")]'),
        ("blt:float-text-sum", 'stel s = 0.0; stel i = 0; zolang i < 10 { s = s + 0.1; i += 1; }; [string(s), s == 1.0, float(string(s)) == s]'),
    ]
    return out


# ------------------------------------------------------------------ bounded-exhaustive statement sequences
def fam_exhaustive(max_len=3):
    """all sequences of up to max_len statements over a reduced alphabet, followed by an observing expression"""
    atoms = [
        "stel a = %s;" % H0,
        "a = a + %s;" % H1,
        "stel b = a * 2;",
        "{ stel a = 7; b = a; };",
        "als a < %s { a = a + 1; } anders { b = b + 1; };" % H1,
        "zolang a < 3 { a += 1; };",
        "b = als a == %s { 1 } anders { a };" % H1,
        "functie f(x) { x + a };",
        "b = f(b);",
        "stel a = b;",
        "a;",
        "{};",
    ]
    out = []
    pre = "stel a = 0; stel b = 0; functie f(x) { x }; "
    for n in range(1, max_len + 1):
        for seq in itertools.product(range(len(atoms)), repeat=n):
            # 'b = f(b)' and friends are always legal thanks to the prelude
            body = " ".join(atoms[i] for i in seq)
            out.append(("exh:" + "-".join(map(str, seq)), pre + body + " [a, b]"))
    return out


def fam_loop_bodies(max_len=2, contexts=("top", "fn")):
    """all sequences of up to max_len statements over a loop-body alphabet (index assignment, exits of the loop under
    conditions, nested conditionals with and without else, block-local declarations, calls), placed in a loop at top level
    and in a loop inside a function; the observing expression reads everything the body can touch"""
    atoms = [
        "l[i] = i + %s;" % H0,
        "als i == %s { stop; };" % H1,
        "als i == %s { volgende; };" % H1,
        "als l[i] == %s { l[i] = 9; stop; };" % H0,
        "stel t = i * 2; acc += t;",
        "acc = acc + l[i];",
        "{ stel u = acc; acc = u + 1; };",
        "acc += f(i);",
        "l[i];",
        "als i > 0 { als i == %s { stop; } };" % H1,
        "als i > 0 { als acc > %s { volgende; }; acc += 1; } anders { acc += 2; };" % H0,
        "als i > 0 { acc += 1; als acc > %s { stop; } } anders als i == 0 { acc += 5; } anders { acc += 7; };" % H0,
        "l[i] = [acc, 0.5][0];",
        "EXIT",
        "zolang nee { acc += 100; };",
        "zolang ja { acc += 1; stop; };",
        "als i == %s { };" % H1,
        "als i > %s { acc += 1; } anders { };" % H1,
    ]
    out = []
    for ctx in contexts:
        for n in range(1, max_len + 1):
            for seq in itertools.product(range(len(atoms)), repeat=n):
                body = " ".join(atoms[k] for k in seq)
                if ctx == "top":
                    body = body.replace("EXIT", "als acc > %s { stop; };" % H1)
                    prog = ("functie f(x) { x + 1 }; stel l = [3, 1, 2]; stel acc = 0; stel i = 0 - 1; "
                            "zolang i < 2 { i += 1; %s }; [l, acc, i]" % body)
                else:
                    body = body.replace("EXIT", "als acc > %s { antwoord [l, acc, i, 0]; };" % H1)
                    prog = ("functie f(x) { x + 1 }; functie run(l) { stel acc = 0; stel i = 0 - 1; "
                            "zolang i < 2 { i += 1; %s }; [l, acc, i] }; stel r = run([3, 1, 2]); stel after = [7, 8]; [r, after]" % body)
                out.append(("loop:%s:%s" % (ctx, "-".join(map(str, seq))), prog))
    return out


# ------------------------------------------------------------------ seeded random, type-directed
class RandGen:
    def __init__(self, rng, max_holes=3):
        self.r = rng
        self.holes = 0
        self.max_holes = max_holes
        self.fresh = 0
        self.fns = []  # (name, arity)

    def hole(self):
        if self.holes < self.max_holes and self.r.random() < 0.5:
            self.holes += 1
            return "⟦%d⟧" % (self.holes - 1)
        if self.holes and self.r.random() < 0.5:
            return "⟦%d⟧" % self.r.randrange(self.holes)
        return str(self.r.choice([0, 1, 2, 3, 5, 10]))

    def name(self, p="v"):
        self.fresh += 1
        return "%s%d" % (p, self.fresh)

    def int_expr(self, env, d):
        ints = [n for n, t in env if t == "int"]
        arrs = [n for n, t in env if t == "arr"]
        c = self.r.random()
        if d <= 0 or c < 0.3:
            if ints and self.r.random() < 0.6:
                return self.r.choice(ints)
            return self.hole()
        if c < 0.6:
            op = self.r.choice(["+", "-", "*", "+", "-"])
            return "(%s %s %s)" % (self.int_expr(env, d - 1), op, self.int_expr(env, d - 1))
        if c < 0.68:
            return "(%s %s %s)" % (self.int_expr(env, d - 1), self.r.choice(["/", "%"]), self.int_expr(env, d - 1))
        if c < 0.76 and arrs:
            return "%s[%s]" % (self.r.choice(arrs), self.int_expr(env, d - 1))
        if c < 0.84 and self.fns:
            f, k = self.r.choice(self.fns)
            return "%s(%s)" % (f, ", ".join(self.int_expr(env, d - 1) for _ in range(k)))
        if c < 0.92:
            return "als %s { %s } anders { %s }" % (self.bool_expr(env, d - 1), self.int_expr(env, d - 1), self.int_expr(env, d - 1))
        if arrs:
            return "lengte(%s)" % self.r.choice(arrs)
        return "(0 - %s)" % self.int_expr(env, d - 1)

    def bool_expr(self, env, d):
        c = self.r.random()
        if d <= 0 or c < 0.7:
            return "%s %s %s" % (self.int_expr(env, d - 1), self.r.choice(["<", "<=", ">", ">=", "==", "!="]), self.int_expr(env, d - 1))
        if c < 0.8:
            return "!(%s)" % self.bool_expr(env, d - 1)
        a = "%s %s %s" % (self.int_expr(env, 0), self.r.choice(["<", "==", ">"]), self.int_expr(env, 0))
        b = "%s %s %s" % (self.int_expr(env, 0), self.r.choice(["<", "!=", ">="]), self.int_expr(env, 0))
        return "(%s %s %s)" % (a, self.r.choice(["&&", "||"]), b)

    def stmts(self, env, d, n, in_loop=False, in_fn=False):
        out = []
        env = list(env)
        for _ in range(n):
            c = self.r.random()
            ints = [v for v, t in env if t == "int"]
            arrs = [v for v, t in env if t == "arr"]
            if c < 0.22 or not ints:
                v = self.name()
                out.append("stel %s = %s;" % (v, self.int_expr(env, d)))
                env.append((v, "int"))
            elif c < 0.36:
                out.append("%s %s %s;" % (self.r.choice(ints), self.r.choice(["=", "+=", "-=", "*="]), self.int_expr(env, d)))
            elif c < 0.44:
                v = self.name("a")
                out.append("stel %s = [%s];" % (v, ", ".join(self.int_expr(env, d - 1) for _ in range(self.r.randrange(1, 4)))))
                env.append((v, "arr"))
            elif c < 0.5 and arrs:
                out.append("%s[%s] = %s;" % (self.r.choice(arrs), self.int_expr(env, 0), self.int_expr(env, d)))
            elif c < 0.62 and d > 0:
                els = " anders { %s }" % self.stmts(env, d - 1, self.r.randrange(0, 3), in_loop, in_fn) if self.r.random() < 0.6 else ""
                out.append("als %s { %s }%s;" % (self.bool_expr(env, d - 1), self.stmts(env, d - 1, self.r.randrange(0, 3), in_loop, in_fn), els))
            elif c < 0.72 and d > 0:
                i = self.name("i")
                body = self.stmts(env + [(i, "int")], d - 1, self.r.randrange(0, 3), True, in_fn)
                out.append("stel %s = 0; zolang %s < %s { %s += 1; %s };" % (i, i, self.r.choice(["2", "3", self.hole()]), i, body))
                env.append((i, "int"))
            elif c < 0.78 and d > 0:
                out.append("{ %s };" % self.stmts(env, d - 1, self.r.randrange(0, 3), in_loop, in_fn))
            elif c < 0.86 and d > 0 and not in_fn and len(self.fns) < 4 and not in_loop:
                f = self.name("f")
                k = self.r.randrange(0, 3)
                ps = [self.name("p") for _ in range(k)]
                genv = [(v, t) for v, t in env if t == "int" and v.startswith("g")] + [(p, "int") for p in ps]
                body = self.stmts(genv, d - 1, self.r.randrange(0, 3), False, True)
                out.append("functie %s(%s) { %s %s };" % (f, ", ".join(ps), body, self.int_expr(genv, 1)))
                self.fns.append((f, k))
            elif c < 0.9 and in_loop:
                out.append("als %s { %s; };" % (self.bool_expr(env, 0), self.r.choice(["stop", "volgende"])))
            elif c < 0.93 and in_fn:
                out.append("als %s { antwoord %s; };" % (self.bool_expr(env, 0), self.int_expr(env, 1)))
            elif c < 0.97:
                out.append('print("{} {}", %s, %s);' % (self.int_expr(env, 1), self.bool_expr(env, 0)))
            else:
                out.append("%s;" % self.int_expr(env, d))
        self.last_env = env
        return " ".join(out)

    def program(self):
        g = self.name("g")
        env = [(g, "int")]
        body = self.stmts(env, 3, self.r.randrange(3, 8))
        ints = [v for v, t in self.last_env if t == "int"][:6]
        return "stel %s = %s; %s [%s]" % (g, self.hole(), body, ", ".join(ints))


def fam_random(seed, n):
    out = []
    for i in range(n):
        rng = random.Random((seed + 1) * 1000003 + i)
        out.append(("rnd:%d:%d" % (seed, i), RandGen(rng).program()))
    return out


# ------------------------------------------------------------------ C10: program pairs (2-safety)
MIRROR = {"<": ">", "<=": ">=", ">": "<", ">=": "<=", "==": "==", "!=": "!=", "+": "+", "*": "*"}


def wrap_in_function(p):
    return "functie hoofd__() { %s }; hoofd__()" % p


def prepend_literals(p, k=0):
    pres = ["stel z1__ = %s; stel z2__ = 424242; " % H0, "stel z1__ = [7, %s, 1, 0, 2]; " % H1,
            'stel z1__ = 3; stel z2__ = 1.5; stel z3__ = "ab"; stel z4__ = %s; ' % H2]
    return pres[k % len(pres)] + p


def is_function_free(p):
    return "functie" not in p


def fam_pairs():
    out = []
    operands = [("pos", H0, H1), ("negl", "(0 - %s)" % H0, H1), ("negr", H0, "(0 - %s - 1)" % H1)]
    for n, op in OPS:
        for on, a, b in operands:
            base = "%s %s %s" % (a, op, b)
            nm = "%s:%s" % (n, on)
            out.append(("pair:local-lit:" + nm, base, "functie f(n) { n %s %s }; f(%s)" % (op, b, a)))
            out.append(("pair:lit-local:" + nm, base, "functie f(n) { %s %s n }; f(%s)" % (a, op, b)))
            out.append(("pair:global-lit:" + nm, base, "stel g = %s; g %s %s" % (a, op, b)))
            out.append(("pair:lit-global:" + nm, base, "stel g = %s; %s %s g" % (b, a, op)))
            out.append(("pair:var-var:" + nm, base, "stel x = %s; stel y = %s; x %s y" % (a, b, op)))
            out.append(("pair:local-local:" + nm, base, "functie f(x, y) { x %s y }; f(%s, %s)" % (op, a, b)))
            out.append(("pair:local-in-block:" + nm, base, "functie f(n) { stel pad = 1; { stel m = n; m %s %s } }; f(%s)" % (op, b, a)))
            out.append(("pair:second-local:" + nm, base, "functie f(p, n) { stel q = p; n %s %s }; f(0, %s)" % (op, b, a)))
            if op in MIRROR:
                out.append(("pair:mirror-lit:" + nm, base, "%s %s %s" % (b, MIRROR[op], a)))
                out.append(("pair:mirror-local:" + nm, "functie f(n) { %s %s n }; f(%s)" % (a, op, b),
                            "functie f(n) { n %s %s }; f(%s)" % (MIRROR[op], a, b)))
                out.append(("pair:mirror-local2:" + nm, "functie f(n) { n %s %s }; f(%s)" % (op, b, a),
                            "functie f(n) { %s %s n }; f(%s)" % (b, MIRROR[op], a)))
    # operands of another type next to the neutral / absorbing literals 0 and 1 (where an "x + 0 is x" shortcut would skip
    # the same-type rule): literal value vs the same value held in a parameter / a global / a block-local, either side
    values = [("float", "1.5"), ("bool", "ja"), ("text", '"s"'), ("list", "[1]"), ("null", "als nee { 1 }"), ("int", H0)]
    for vn, v in values:
        for op, c in (("+", 0), ("-", 0), ("*", 1), ("/", 1), ("*", 0), ("+", 1), ("%", 1), ("<", 0), ("==", 0)):
            for side in ("r", "l"):
                e_lit = "%s %s %s" % ((v, op, c) if side == "r" else (c, op, v))
                e_x = "x %s %s" % (op, c) if side == "r" else "%s %s x" % (c, op)
                nm = "%s:%s%d:%s" % (vn, {"+": "add", "-": "sub", "*": "mul", "/": "div", "%": "rem", "<": "lt", "==": "eq"}[op], c, side)
                base = "stel uit = %s; uit" % e_lit if vn != "null" else "stel leeg = %s; stel uit = %s; uit" % (v, e_lit.replace(v, "leeg"))
                arg = v
                out.append(("pair:typed-neutral:param:" + nm, base, "functie f(x) { %s }; f(%s)" % (e_x, arg)))
                out.append(("pair:typed-neutral:block-local:" + nm, base, "functie f(p) { stel pad = 0; { stel x = p; %s } }; f(%s)" % (e_x, arg)))
                out.append(("pair:typed-neutral:global:" + nm, base, "stel x = %s; %s" % (arg, e_x)))
    # a condition written in place vs computed into a variable first (both operands of && / || must be treated alike in
    # both places: side effects, errors, non-boolean operands)
    pre = 'stel t = 0; functie g(v) { t = t + 1; print("g"); v }; '
    conds = [("and-call", "%s < %s && g(ja)" % (H0, H1)), ("or-call", "%s < %s || g(nee)" % (H0, H1)), ("and-nonbool", "%s < %s && 1" % (H0, H1)),
             ("or-nonbool", "%s < %s || 0" % (H0, H1)), ("and-error", "%s < %s && [1][5] == 1" % (H0, H1)), ("call-and", "g(%s < %s) && g(ja)" % (H0, H1)),
             ("and-and", "%s < %s && g(ja) && g(%s < %s)" % (H0, H1, H1, H0)), ("not-and", "!(%s < %s && g(ja))" % (H0, H1))]
    for cn, c in conds:
        out.append(("pair:cond-inline-vs-var:als:" + cn, pre + "als %s { t = t + 10; } anders { t = t + 20; }; t" % c, pre + "stel c = %s; als c { t = t + 10; } anders { t = t + 20; }; t" % c))
        out.append(("pair:cond-inline-vs-var:zolang:" + cn, pre + "stel n = 0; zolang %s { n += 1; als n > 1 { stop; } }; [t, n]" % c,
                    pre + "stel n = 0; stel c = %s; zolang c { n += 1; als n > 1 { stop; }; c = %s; }; [t, n]" % (c, c)))
        out.append(("pair:cond-inline-vs-var:chain:" + cn, pre + "als %s < 0 { 1 } anders als %s { 2 } anders { 3 }" % (H0, c), pre + "stel c = %s; als %s < 0 { 1 } anders als c { 2 } anders { 3 }" % (c, H0)))
    # a (negated) literal next to an "equal" literal elsewhere in the program: 0.0 / -0.0, 1.5 / -1.5, 0 / -0, 7 / -7
    signed = [("float-zero", "[1.0 / -0.0, 4.0 * -0.0 == 0.0, 1.0 / (0.0 - 0.0)]", "stel nul = 0.0; "), ("float-zero-rev", "[1.0 / 0.0, 1.0 / (0.0 * 1.0)]", "stel min = -0.0; "),
              ("float", "[-1.5 + 1.0, 2.0 * -1.5, 1.5 - -1.5]", "stel p = 1.5; "), ("float-rev", "[1.5 + 1.0, 2.0 * 1.5]", "stel q = -1.5; "),
              ("int-zero", "[-0 + %s, 5 * -0, 0 - -0]" % H0, "stel z = 0; "), ("int", "[-7 + %s, -7 * 2, 7 - -7]" % H0, "stel s = 7; "), ("int-rev", "[7 + %s, 7 * 2]" % H0, "stel t = -7; ")]
    for nm, prog, pre in signed:
        out.append(("pair:signed-literal-elsewhere:" + nm, prog, pre + prog))
        out.append(("pair:signed-literal-elsewhere-fn:" + nm, prog, "functie hoofd__() { %s%s }; hoofd__()" % (pre, prog)))
    # literal operand vs variable holding it, inside richer expressions
    exprs = ["x * 2 + %s" % H1, "(%s - x) %% 7" % H1, "[x, %s, x + %s]" % (H1, H1), "als x < %s { x } anders { %s }" % (H1, H1),
             "x / %s + x %% %s" % (H1, H1)]
    for i, e in enumerate(exprs):
        a = "functie f(x) { %s }; f(%s)" % (e, H0)
        b = "functie f(x) { stel k = %s; %s }; f(%s)" % (H1, e.replace(H1, "k"), H0)
        out.append(("pair:lit-vs-var:%d" % i, a, b))
        out.append(("pair:lit-vs-var-top:%d" % i, "stel x = %s; %s" % (H0, e), "stel x = %s; stel k = %s; %s" % (H0, H1, e.replace(H1, "k"))))
    # generic transformations over closed, function-free programs
    closed = []
    for fam in (fam_control, fam_scoping, fam_sequences, fam_compose, fam_boundary, fam_builtins):
        closed += [(n, p) for n, p in fam() if is_function_free(p) and p.strip() and "//" not in p and "antwoord" not in p
                   and "self-init" not in n]
    closed += [(n, p) for n, p in fam_exhaustive(2) if is_function_free(p)]
    for i, (n, p) in enumerate(closed):
        out.append(("pair:wrap:" + n, p, wrap_in_function(p)))
        out.append(("pair:prepend:" + n, p, prepend_literals(p, i)))
    # wrapped AND prepended, a few
    for i, (n, p) in enumerate(closed[::7]):
        out.append(("pair:wrap-prepend:" + n, p, wrap_in_function(prepend_literals(p, i))))
    return out


# ------------------------------------------------------------------ C17: retained sessions
SESSION_LINES = [
    ("decl", "stel a = %s" % H0),
    ("upd", "a = a + %s; a" % H1),
    ("derive", "stel b = a * 2; b"),
    ("index", "[a, 7][%s]" % H2),
    ("text", 'stel s = "xy"; s[0] = "q"; s'),
    ("usetext", "s"),
    ("fn", "functie f(n) { n * 2 }; f(%s)" % H1),
    ("loop", "stel i = 0; zolang i < 2 { i += 1; }; i"),
    ("undecl", "nope + 1"),
    ("undecl-in-block", "1; als ja { 2; nope }"),
    ("fail-in-fn", "functie h() { [1][5] }; h()"),
    ("parse-error", "stel c = )"),
    ("undecl-in-fn-loop", "functie g() { zolang ja { nope } }"),
    ("array", "stel v = [a, 2.5, \"t\"]; v"),
    ("usearray", "v[0] = 9; v"),
    ("callfn", "f(4)"),
    ("heapstore", "v[0] = 2.5 + 1.0; 0"),
    ("callalloc", "functie w() { 1 }; w(); stel z = [7.25 + 1.0, \"fill\"]; z"),
    ("value-then-fail", "7 * 2; 3 + 1; [1][5]"),
    ("declonly", "stel d = 3"),
]

# directed longer sessions (name, lines): multi-step sequences that 3-line enumeration cannot reach
DIRECTED_SESSIONS = [
    ("result-then-store-then-collect", ["stel v = [1.5, \"t\"]", "v", "v[0] = 2.5 + 1.0; 0", "functie w() { 1 }; w(); stel z = [7.25 + 1.0, \"fill\"]; z", "v"]),
    ("string-result-then-modify", ['stel s = "xy"', "s", 's[0] = "q"; 0', "functie w() { 1 }; w(); stel z = \"zz\"; z", "s"]),
    ("nested-result-then-store", ["stel v = [[1.5], 0]", "v", "v[1] = [2.5 + 1.0]; 0", "functie w() { stel t = [9.5] }; w(); stel z = [7.25 + 1.0]; 0", "stel in = v[1]; in[0]"]),
    ("error-with-live-heap-then-read", ["stel a = [1.5, \"k\"]; stel f = 0.5 + 1.0", "a[5]", "stel z = [7.25 + 1.0, \"fill\"]; 0", "functie w() { 1 }; w()", "[a, f]"]),
    ("error-in-fn-with-live-heap", ["stel a = [1.5, \"k\"]", "functie h() { stel t = [2.5]; t[3] }; h()", "functie w() { 1 }; w(); stel z = [7.25 + 1.0]; 0", "a"]),
    ("compile-error-in-block-then-shadow", ["stel a = %s" % H0, "als a == a { stel a = 2; nope }", "a", "stel b = 10; nope", "a + 1"]),
    ("compile-error-in-loop-then-loop", ["stel a = 0", "zolang a < 3 { a += 1; nope }", "zolang a < 3 { a += 1; }; a", "stop"]),
    ("compile-error-in-loop-condition-then-volgende", ["stel i = 0", "zolang b { i = 100 }", "zolang i < 3 { i = i + 1 }; i = i + 10; als i < 25 { volgende }; i", "i"]),
    ("compile-error-in-loop-condition-then-stop", ["stel a = 0", "zolang nope < 3 { a += 1 }", "stel q = 1; stop", "a", "q"]),
    ("compile-error-in-nested-loop-condition", ["stel a = 0", "zolang a < 1 { a = a; zolang nope { } }", "als a == 0 { volgende }; 5", "a"]),
    ("compile-error-in-fn-loop-condition", ["stel a = 0", "functie g() { zolang nope { 1 } }", "stop", "functie h() { volgende }; 1", "a"]),
    ("result-then-store-then-collect-twice", ["stel a = [0, 0]", "a", 'a[0] = "nieuwe waarde"; 0', "functie w() { 1 }; w(); w(); w(); 0", "a[0]", "functie w() { 1 }; w(); w(); a"]),
    ("nested-result-then-store-then-collect-twice", ["stel a = [[0], 0]", "a", "stel in = a[0]; in[0] = 2.5 + 1.0; a[1] = [7.5]; 0", "functie w() { stel t = [9.5] }; w(); w(); stel z = [1.25 + 1.0]; w(); 0", "a"]),
    ("compile-error-two-functions-deep-then-decl", ["stel a = %s" % H0, "functie buiten() { functie binnen() { onbekend }; binnen() }", "stel b = 5", "a + b", "functie f() { stel c = 1; c }; f() + b"]),
    ("compile-error-three-functions-deep-then-decl", ["stel a = 1", "functie p() { functie q() { functie r() { onbekend }; r() }; q() }", "stel b = a + 1; b", "b"]),
    ("globals-many-lines", ["stel a = %s" % H0, "stel b = a + 1", "a = b * 2; a", "stel c = [a, b]", "c[%s]" % H2, "a + b"]),
    ("redeclare-across-lines", ["stel a = 1", "stel a = %s + 1" % H1, "a", "{ stel a = 5; a }", "a"]),
    ("redeclare-fails-at-run-time", ["stel a = 1", "stel a = [1][%s]" % H2, "a"]),
    # every line defines and calls its OWN function (calling a function of an earlier line is the known finding): function
    # constants of different lines with the same entry offset / frame size but different parameter counts or bodies
    ("fn-per-line-different-arity", ["stel f = functie(a) { stel t = a * 2; t }; f(%s)" % H0, "stel g = functie(a, b) { a + b }; g(1, %s)" % H1, "stel h = functie() { 7 }; h()"]),
    ("fn-per-line-different-arity-rev", ["stel g = functie(a, b) { a + b }; g(1, %s)" % H1, "stel f = functie(a) { stel t = a * 2; t }; f(%s)" % H0]),
    ("fn-per-line-same-shape", ["functie p(a) { a + 1 }; p(%s)" % H0, "functie q(a) { a + 2 }; q(%s)" % H0, "functie r(a, b) { a + b }; r(1, %s)" % H1, "functie s(a) { a + 1 }; s(%s)" % H1]),
    # a line that fails after it produced values: the NEXT line's value must not be a left-over of the failed one
    # (the failing lines assign nothing before they fail: what a failed line assigned stays assigned, and the oracle - the
    # program made of the successful lines - cannot express that)
    ("stale-value-after-failed-line", ["stel a = %s" % H0, "a * 2; a + 1; a / 0", "stel c = a", "c"]),
    ("stale-value-after-failed-loop", ["stel d = 0", "functie lus() { stel i = 0; zolang i < 5 { i += 1; i * 10; als i == 3 { [1][i]; } } }; 8; lus()", "stel k = 1", "{ }", "d"]),
    ("stale-value-after-failed-call", ["5; 6", "functie h(n) { n + 1; n * 2; [n][n] }; 5; h(%s + 1)" % H0, "stel e = 1", "e"]),
    ("heap-constant-reuse", ['stel s = "abc"', 'stel t = "abc"; t[0] = "x"; t', "s", '"abc"', "1.5", "1.5 + 1.5"]),
]


def fam_sessions(max_len=3, names=None):
    """all sessions of up to max_len lines over the line alphabet"""
    import itertools as it
    alpha = [x for x in SESSION_LINES if names is None or x[0] in names]
    out = []
    for n in range(1, max_len + 1):
        for seq in it.product(alpha, repeat=n):
            out.append(("sess:" + ">".join(x[0] for x in seq), [x[1] for x in seq]))
    return out


def fam_sessions_directed():
    return [("sess-directed:" + n, l) for n, l in DIRECTED_SESSIONS]


def fam_sessions_random(seed, n, length):
    out = []
    for i in range(n):
        rng = random.Random((seed + 7) * 7919 + i)
        seq = [rng.choice(SESSION_LINES) for _ in range(length)]
        out.append(("sess-rnd:%d:%s" % (seed, ">".join(x[0] for x in seq)), [x[1] for x in seq]))
    return out


# ------------------------------------------------------------------ C03 / C04: allocation across collection points
def fam_gc():
    """heap values (floats, strings, lists; nested, aliased, cyclic) kept alive / dropped across function returns
    (a collection runs at every return); the last expression reads everything that must still be alive"""
    pre = "functie id(x) { x }; functie noop() { stel t = 0 }; functie mk(n) { [n, 0.5 + 1.0, \"s\"] }; "
    out = [
        ("gc:fresh-float-into-survivor", pre + "stel a = [0.5]; id(1); a[0] = 1.5 + 1.0; print(a); id(2); stel b = 3.0 + 4.0; [a[0], b]"),
        ("gc:fresh-string-into-survivor", pre + 'stel a = ["x"]; id(1); stel s = "ab"; s[0] = "q"; a[0] = s; s = 0; noop(); stel t = "zz"; t[1] = "y"; [a[0], t]'),
        ("gc:nested-into-survivor", pre + "stel a = [[1.5], 0]; id(1); a[1] = [2.5 + %s, [3.5]]; noop(); stel fill = [4.5, 5.5, 6.5]; stel in = a[1]; stel deep = in[1]; [a[0], in[0], deep[0], fill]" % H0),
        ("gc:result-of-call-is-heap", pre + "stel a = mk(%s); stel b = mk(2); noop(); stel c = mk(3); [a, b, c]" % H0),
        ("gc:pending-operands", pre + "stel r = [1.5 + 1.0, id(2.5 + 1.0), mk(1), id(\"k\")]; noop(); r"),
        ("gc:args-are-heap", pre + "functie pair(x, y) { noop(); [x, y] }; stel p = pair(1.5 + 1.0, [2.5]); noop(); stel q = pair(\"a\", 3.5); [p, q]"),
        ("gc:alias-two-lists", pre + "stel f = 1.5 + %s; stel a = [0, 0]; stel b = [0]; a[1] = [f]; b[0] = a[1]; a = 0; noop(); stel junk = [9.5, 8.5]; stel x = b[0]; [x[0], junk]" % H0),
        ("gc:cycle", pre + "stel a = [1.5, 0]; a[1] = a; noop(); stel b = a[1]; stel junk = [7.5]; [b[0], junk[0], lengte(b)]"),
        ("gc:drop-then-reuse", pre + "stel a = [1.5, 2.5]; a = 0; noop(); stel b = [3.5, 4.5]; noop(); stel c = [5.5]; [b, c]"),
        ("gc:global-survives-many-calls", pre + "stel g = [0.25, \"keep\"]; stel i = 0; zolang i < %s { stel tmp = mk(i); noop(); i += 1; }; stel after = [0.75]; [g, after]" % H0),
        ("gc:last-value-is-heap", pre + "1.5 + 1.0; noop(); stel z = 3.0 + 4.0; 2.5 + 0.0"),
        ("gc:value-returned-through-frames", pre + "functie deep(n) { als n == 0 { antwoord [1.5, \"x\"]; }; stel local = [n]; deep(n - 1) }; stel r = deep(%s); noop(); stel junk = [2.5, \"y\"]; [r, junk]" % H0),
        ("gc:string-index-result", pre + 'stel s = "héllo"; stel c = s[1]; noop(); stel d = s[4]; noop(); [c, d, s]'),
        ("gc:float-arith-chain", pre + "stel x = 1.5; stel i = 0; zolang i < 3 { x = x * 2.0 + id(0.5); i += 1; }; noop(); [x, 1.5]"),
        ("gc:error-with-live-heap", pre + "stel a = [1.5, \"x\", [2.5]]; noop(); print(a); a[%s]" % H0),
        ("gc:error-inside-call-with-live-heap", pre + "functie bad(v) { stel t = [v, 3.5]; t[5] }; stel a = [1.5]; print(a); bad(a)"),
        # a conversion of a heap value to its OWN type (string(text), float(float)) is the identity: no second object may
        # appear that nobody releases - the results are not part of the program's result, on a normal end, on an error exit and
        # across collections in a loop
        ("gc:own-type-conversions-not-in-result", pre + 'stel s = "abc"; stel f = 1.5 + 1.0; stel t = string(s); stel g = float(f); noop(); stel u = string(t); stel h = float(g); 1'),
        ("gc:own-type-conversion-then-error", pre + 'stel s = "abc"; stel t = string(s); stel g = float(2.5 + 1.0); print(t); t[%s]' % H0),
        ("gc:own-type-conversion-in-loop", pre + 'functie conv(x) { stel y = string(x); stel z = float(0.5 + 1.0); lengte(y) }; stel i = 0; stel n = 0; zolang i < 3 { n = n + conv("tekst"); i += 1; }; n'),
        ("gc:builtin-results", pre + 'stel t = [string(12), type(1.5), float(3), string(2.5)]; noop(); stel u = [string(7)]; [t, u]'),
        # collections at a return INTO ANOTHER FUNCTION (call depth >= 2): a fresh heap value that is reachable only through an
        # array that is older than the inner call
        ("gc:inner-call-stores-float-into-older-array", pre + "functie put(l, v) { l[0] = v * 2.0; 0 }; functie outer(l) { put(l, 0.75); noop(); stel junk = [9.5, 8.5]; [l[0], junk] }; stel a = [0.5]; outer(a)"),
        ("gc:inner-call-stores-string-into-older-array", pre + 'functie put(l, i) { stel s = "ab"; s[0] = "q"; l[i] = s; 0 }; functie outer(l) { put(l, 0); put(l, 1); noop(); stel junk = "zzzz"; junk[0] = "y"; [l, junk] }; stel a = [0, 0]; outer(a)'),
        ("gc:inner-call-stores-list-into-older-local", pre + "functie put(l, v) { l[1] = [v + 0.5, [v]]; 0 }; functie outer(n) { stel mine = [n, 0]; put(mine, 1.25); noop(); stel junk = [7.5, [6.5]]; stel in = mine[1]; [in[0], in[1], junk] }; outer(%s)" % H0),
        ("gc:three-deep-store-into-global-array", pre + "stel g = [0, 0, 0]; functie c(i) { g[i] = 0.5 + 1.0; 0 }; functie b(i) { c(i); noop(); 0 }; functie a(i) { b(i); noop(); stel junk = [3.5, 4.5, 5.5]; junk }; a(0); a(1); a(2); g"),
        ("gc:recursive-fill", pre + "functie fill(l, n) { als n < 0 { antwoord 0; }; l[n] = [n, 0.5 + 1.0]; fill(l, n - 1); noop(); 0 }; stel a = [0, 0, 0]; fill(a, 2); stel junk = [[9, 9.5], [8, 8.5]]; [a, junk]"),
        # results with nested heap values: the hand-over to the caller must take the whole graph
        ("gc:result-nested-two-levels", pre + "[[1.5 + 1.0]]"),
        ("gc:result-nested-three-levels", pre + 'stel x = ["a"]; noop(); [x, [x, [2.5, "deep"]], %s]' % H0),
        ("gc:result-from-function-nested", pre + 'functie build(n) { [n, ["diep", [n + 0.5]]] }; build(2.0)'),
        ("gc:result-shared-substructure", pre + 'stel s = [0.25, "w"]; stel r = [s, [s, [s]]]; noop(); r'),
        ("gc:result-contains-itself", pre + "stel a = [1.5, 0]; a[1] = a; noop(); a"),
        ("gc:result-is-element-of-global", pre + 'stel a = [1.5, [2.5, "s"]]; noop(); a[1]'),
        ("gc:result-is-string-char", pre + 'stel s = "héllo"; noop(); s[%s]' % H0),
        # abort-point sweeps: one symbolic hole selects WHERE the run fails (each value is a path: a different instruction
        # count, a different set of live heap values, inside / outside a call, before / after collections)
        ("gc:abort-sweep-top", pre + 'stel k = %s; stel a = [1.5, "x"]; als k == 0 { a[9]; }; stel b = mk(2); als k == 1 { b[9]; }; noop(); als k == 2 { a[9]; }; '
                                     'stel c = [a, [b]]; als k == 3 { c[9]; }; a = 0; noop(); als k == 4 { b[9]; }; [b, c]' % H0),
        ("gc:abort-sweep-in-call", pre + 'functie work(k, acc) { stel t = [0.5 + 1.0, "loc"]; als k == 0 { t[9]; }; acc[0] = t; als k == 1 { acc[9]; }; stel u = mk(3); noop(); '
                                         'als k == 2 { u[9]; }; [t, u] }; stel acc = [0]; stel r = work(%s, acc); als %s == 3 { r[9]; }; [r, acc]' % (H0, H0)),
        ("gc:abort-sweep-nested-calls", pre + 'functie in(k, l) { l[0] = 2.5 + 1.0; als k == 0 { l[9]; }; stel s = "in"; s[0] = "I"; als k == 1 { s[9]; }; s }; '
                                              'functie out(k) { stel l = [0, "o"]; stel s = in(k, l); als k == 2 { l[9]; }; noop(); als k == 3 { s[9]; }; [l, s] }; stel r = out(%s); als %s == 4 { r[9]; }; r' % (H0, H0)),
        ("gc:abort-sweep-type-errors", pre + 'stel k = %s; stel a = [1.5]; als k == 0 { a + 1; }; stel s = "t"; als k == 1 { s - s; }; functie g(v) { als k == 2 { v[0] && ja; }; [v] }; stel r = g(a); als k == 3 { r(); }; als k == 4 { lengte(1); }; [r, s]' % H0),
        ("gc:abort-in-loop-with-garbage", pre + 'stel i = 0; stel keep = []; zolang i < 4 { stel t = mk(i); noop(); als i == %s { t[9]; }; keep = [t, keep]; i += 1; }; keep' % H0),
    ]
    return out
