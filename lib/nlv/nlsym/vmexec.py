"""nlsym bytecode executor: the specification of the stack machine, run symbolically.

`step()` is the single place where opcode semantics live on the Python side; the same
behaviour is what the Kani contracts (harness/vm_proofs.rs) prove about the real VM::run
one instruction at a time.  Preconditions that only a wrong COMPILER can break (C02) are
checked before every instruction and surface as outcome ('unsafe', reason).
"""
import math
import re
import struct

import z3

from .core import (ANY_ERR, MAX_INT, MIN_INT, NULL, W, Heap, Unsupported, V, bv, display,
                   fmt_float, is_sym, norm_segments, snapshot, vbool, vint, zbool)

HOLE_BASE = 7700000


class VMError(Exception):
    def __init__(self, kind, why=""):
        self.kind, self.why = kind, why


class Unsafe(Exception):
    """a machine precondition is violated: the real VM would read/write outside its own data"""


class Program:
    """Bytecode + constants as produced by the REAL compiler (nl-dump), plus the opcode table of the real crate."""

    def __init__(self, code_json, optable, holes=None):
        self.ins = list(code_json["instructions"])
        self.consts_json = code_json["constants"]
        self.op_by_code = {o["code"]: (o["name"], o["operands"]) for o in optable["opcodes"]}
        self.builtin_by_code = {b["code"]: b["name"] for b in optable["builtins"]}
        self.holes = holes or {}
        # linear sweep: instruction boundaries
        self.bound = set()
        self.decode_error = None
        ip = 0
        while ip < len(self.ins):
            self.bound.add(ip)
            op = self.op_by_code.get(self.ins[ip])
            if op is None:
                self.decode_error = "invalid opcode byte %d at %d" % (self.ins[ip], ip)
                break
            ip += 1 + sum(op[1])
        if ip > len(self.ins) and not self.decode_error:
            self.decode_error = "truncated operands at end of code"
        # function regions: Jump t at p, function constant with entry p+3  => region [p+3, t)
        entries = {int(c["ip"]): c for c in self.consts_json if c["t"] == "func"}
        self.regions = []
        for p in sorted(self.bound):
            name, _ = self.op_by_code[self.ins[p]]
            if name == "Jump" and (p + 3) in entries and p + 2 < len(self.ins):
                t = self.ins[p + 1] | (self.ins[p + 2] << 8)
                self.regions.append((p + 3, t))
        # a function constant is callable in THIS code only if its entry starts one of this code's function bodies
        # (a retained compiler's constant pool still holds the function values of earlier lines)
        starts = set(a for (a, b) in self.regions)
        self.entries = {a: c for a, c in entries.items() if a in starts}

    def owner(self, ip):
        """innermost function region containing ip (None = top level)"""
        best = None
        for (a, b) in self.regions:
            if a <= ip < b and (best is None or a >= best[0]):
                best = (a, b)
        return best

    def const_value(self, idx, m):
        c = self.consts_json[idx]
        return json_to_value(c, m.heap, self.holes, m.const_cache, idx)


def json_to_value(c, heap, holes, cache=None, key=None):
    t = c["t"]
    if t == "null":
        return NULL
    if t == "bool":
        return vbool(bool(c["v"]))
    if t == "int":
        v = int(c["v"])
        if v in holes:
            return vint(holes[v])
        return vint(v)
    if t == "func":
        return V("func", int(c["ip"]), int(c["nl"]), int(c["arity"]))
    if t == "float":
        return V("float", struct.unpack("<d", struct.pack("<Q", int(c["bits"])))[0])
    if t == "str":
        # Const pushes a fresh copy of a string constant (strings are mutable in place)
        return V("str", heap.alloc("str", list(c["v"])))
    if t == "arr":
        return V("arr", heap.alloc("arr", [json_to_value(x, heap, holes) for x in c["v"]]))
    raise AssertionError(t)


TYPE_NAME = {"null": "null", "bool": "bool", "int": "int", "func": "functie", "float": "float",
             "str": "string", "arr": "array"}


class Machine:
    def __init__(self, ctx, max_steps=400, max_depth=48):
        self.ctx = ctx
        self.heap = Heap()
        self.stack = []
        self.globals = []
        self.frames = [[0, 0]]
        self.ip = 0
        self.bp = 0
        self.out = []
        self.steps = 0
        self.max_steps = max_steps
        self.max_depth = max_depth
        self.const_cache = {}
        self.trace = None
        self.max_stack = 0
        self.region_stack = [None]

    # ---------------------------------------------------------------- helpers
    def pop(self):
        if not self.stack:
            raise Unsafe("pop from empty operand stack at ip=%d" % self.cur_ip)
        return self.stack.pop()

    def push(self, v):
        self.stack.append(v)
        if len(self.stack) > self.max_stack:
            self.max_stack = len(self.stack)
        if len(self.stack) >= 65535:
            raise Unsupported("operand stack beyond the 16-bit index (machine limit)")

    def rd8(self, prog):
        if self.ip >= len(prog.ins):
            raise Unsafe("operand fetch past end of code")
        v = prog.ins[self.ip]
        self.ip += 1
        return v

    def rd16(self, prog):
        if self.ip + 1 >= len(prog.ins):
            raise Unsafe("operand fetch past end of code")
        v = prog.ins[self.ip] | (prog.ins[self.ip + 1] << 8)
        self.ip += 2
        return v

    def local(self, idx):
        i = self.bp + idx
        if i >= len(self.stack):
            raise Unsafe("local slot %d (bp=%d) outside the stack (len %d) at ip=%d" % (idx, self.bp, len(self.stack), self.cur_ip))
        return i

    def jump(self, prog, t):
        if t not in prog.bound:
            raise Unsafe("jump to %d which is not an instruction boundary" % t)
        self.ip = t

    # ---------------------------------------------------------------- run
    def run(self, prog):
        """VM::run: resets ip/bp, empties the operand stack, drops all frames but the first; keeps globals (retained sessions)."""
        ctx = self.ctx
        if prog.decode_error:
            return ("unsafe", prog.decode_error, list(self.out))
        self.ip = 0
        self.bp = 0
        del self.stack[:]
        del self.frames[1:]
        self.frames[0] = [0, 0]
        self.region_stack = [None]
        self.final = NULL
        self.const_cache = {}
        self.steps = 0
        try:
            while True:
                if self.steps >= self.max_steps:
                    return ("diverged", "step bound", list(self.out))
                self.steps += 1
                r = self.step(prog)
                if r is not None:
                    return r
        except VMError as e:
            return ("err", e.kind, list(self.out), e.why)
        except Unsafe as e:
            return ("unsafe", str(e), list(self.out))

    def step(self, prog):
        ctx = self.ctx
        if self.ip not in prog.bound:
            raise Unsafe("instruction fetch at %d: not an instruction boundary / outside the code" % self.ip)
        if prog.owner(self.ip) != self.region_stack[-1]:
            raise Unsafe("control left its function body: ip=%d is in region %r but the activation runs region %r"
                         % (self.ip, prog.owner(self.ip), self.region_stack[-1]))
        self.cur_ip = self.ip
        opb = prog.ins[self.ip]
        self.ip += 1
        name, _ops = prog.op_by_code[opb]
        if self.trace is not None:
            self.trace.append((self.cur_ip, name, len(self.stack)))
        if name == "Const":
            idx = self.rd16(prog)
            if idx >= len(prog.consts_json):
                raise Unsafe("constant index %d out of range" % idx)
            self.push(prog.const_value(idx, self))
        elif name == "SetGlobal":
            idx = self.rd16(prog)
            v = self.pop()
            while len(self.globals) <= idx:
                self.globals.append(NULL)
            self.globals[idx] = v
        elif name == "GetGlobal":
            idx = self.rd16(prog)
            if idx >= len(self.globals):
                # fixed tree: reading a global before its first assignment (stel x = x) is a ReferenceError
                raise VMError("ReferenceError", "global read before assignment")
            self.push(self.globals[idx])
        elif name == "SetLocal":
            idx = self.rd16(prog)
            v = self.pop()
            self.stack[self.local(idx)] = v
        elif name == "GetLocal":
            idx = self.rd16(prog)
            self.push(self.stack[self.local(idx)])
        elif name == "Jump":
            self.jump(prog, self.rd16(prog))
        elif name == "JumpIfFalse":
            c = self.pop()
            if c.kind != "bool":
                raise VMError("TypeError", "condition is not a bool")
            t = self.rd16(prog)
            if t not in prog.bound:
                raise Unsafe("jump to %d which is not an instruction boundary" % t)
            if not ctx.branch(c.p):
                self.jump(prog, t)
        elif name == "Pop":
            self.final = self.pop()
        elif name == "Null":
            self.push(NULL)
        elif name == "True":
            self.push(vbool(True))
        elif name == "False":
            self.push(vbool(False))
        elif name in BINOPS:
            r = self.pop()
            l = self.pop()
            self.push(binop(self, BINOPS[name], l, r))
        elif name.endswith("LocalConst"):
            li = self.rd16(prog)
            l = self.stack[self.local(li)]
            ci = self.rd16(prog)
            if ci >= len(prog.consts_json):
                raise Unsafe("constant index %d out of range" % ci)
            r = prog.const_value(ci, self)
            self.push(binop(self, BINOPS[name[:-len("LocalConst")]], l, r))
        elif name == "Not":
            l = self.pop()
            if l.kind != "bool":
                raise VMError("TypeError", "! on non-bool")
            self.push(vbool(z3.Not(l.p) if is_sym(l.p) else (not l.p)))
        elif name == "Negate":
            l = self.pop()
            if l.kind == "float":
                self.push(V("float", -l.p))
            elif l.kind == "int":
                if is_sym(l.p):
                    if ctx.branch(l.p == z3.BitVecVal(MIN_INT, W)):
                        raise VMError("TypeError", "negate overflow")
                    self.push(vint(-l.p))
                else:
                    if l.p == MIN_INT:
                        raise VMError("TypeError", "negate overflow")
                    self.push(vint(-l.p))
            else:
                raise VMError("TypeError", "negate on " + l.kind)
        elif name == "Call":
            n = self.rd8(prog)
            if len(self.stack) < 1 + n:
                raise Unsafe("Call %d with only %d stack slots at ip=%d" % (n, len(self.stack), self.cur_ip))
            base = len(self.stack) - 1 - n
            f = self.pop()
            if f.kind != "func":
                raise VMError("TypeError", "not callable")
            fip, nl, arity = f.p, f.q, f.r
            if arity is not None and arity != n:
                raise VMError("ArgumentError", "arity mismatch")
            if nl < n:
                raise Unsafe("Call with %d arguments but the callee has only %d local slots (num_locals - num_args underflows)" % (n, nl))
            for _ in range(nl - n):
                self.push(NULL)
            if len(self.frames) >= self.max_depth:
                return ("diverged", "call depth bound", list(self.out))
            if fip not in prog.bound:
                raise Unsafe("call to %d which is not an instruction boundary" % fip)
            if fip not in prog.entries:
                raise Unsafe("call to %d which is not a function entry of this code" % fip)
            self.frames[-1][0] = self.ip
            self.frames.append([fip, base])
            self.region_stack.append(prog.owner(fip))
            self.ip = fip
            self.bp = base
        elif name == "CallBuiltin":
            b = self.rd8(prog)
            n = self.rd8(prog)
            if b not in prog.builtin_by_code:
                raise Unsafe("builtin number %d out of range" % b)
            if len(self.stack) < n:
                raise Unsafe("CallBuiltin %d with only %d stack slots" % (n, len(self.stack)))
            args = [self.pop() for _ in range(n)]
            args.reverse()
            self.push(call_builtin(self, prog.builtin_by_code[b], args))
        elif name in ("ReturnValue", "Return"):
            if name == "ReturnValue":
                res = self.pop()
            else:
                res = NULL
            if len(self.frames) < 2:
                raise Unsafe("%s with no caller frame (antwoord outside a function)" % name)
            fr = self.frames.pop()
            self.region_stack.pop()
            if fr[1] > len(self.stack):
                raise Unsafe("frame base above the stack")
            del self.stack[fr[1]:]
            self.ip, self.bp = self.frames[-1]
            self.gc_point(prog, res)
            self.push(res)
        elif name == "Array":
            n = self.rd16(prog)
            if len(self.stack) < n:
                raise Unsafe("Array %d with only %d stack slots" % (n, len(self.stack)))
            items = [self.pop() for _ in range(n)]
            items.reverse()
            self.push(V("arr", self.heap.alloc("arr", items)))
        elif name == "IndexGet":
            idx = self.pop()
            left = self.pop()
            self.push(index_get(self, left, idx))
        elif name == "IndexSet":
            val = self.pop()
            idx = self.pop()
            left = self.pop()
            index_set(self, left, idx, val)
            self.push(val)
        elif name == "Halt":
            if len(self.frames) != 1:
                raise Unsafe("Halt reached inside a function activation (%d frames)" % len(self.frames))
            return ("ok", snapshot(self.final, self.heap), list(self.out), len(self.stack))
        else:
            raise Unsafe("unknown opcode " + name)
        return None

    def gc_point(self, prog, res):
        pass


BINOPS = {"Add": "add", "Subtract": "sub", "Multiply": "mul", "Divide": "div", "Modulo": "rem",
          "Gt": "gt", "Gte": "gte", "Lt": "lt", "Lte": "lte", "Eq": "eq", "Neq": "neq", "And": "and", "Or": "or"}

MAXV = z3.BitVecVal(MAX_INT, W)
MINV = z3.BitVecVal(MIN_INT, W)


def int_arith(m, op, a, b):
    ctx = m.ctx
    if not is_sym(a) and not is_sym(b):
        if op in ("div", "rem") and b == 0:
            raise VMError("TypeError", "zero divisor")
        if op == "add":
            r = a + b
        elif op == "sub":
            r = a - b
        elif op == "mul":
            r = a * b
        elif op == "div":
            r = abs(a) // abs(b)
            if (a < 0) != (b < 0):
                r = -r
        else:
            r = abs(a) % abs(b)
            if a < 0:
                r = -r
        if r > MAX_INT or r < MIN_INT:
            raise VMError("TypeError", "integer overflow")
        return vint(r)
    x, y = bv(a), bv(b)
    if op in ("add", "sub"):
        r = x + y if op == "add" else x - y
        if ctx.branch(z3.Or(r > MAXV, r < MINV)):
            raise VMError("TypeError", "integer overflow")
        return vint(r)
    if op == "mul":
        p = z3.SignExt(W, x) * z3.SignExt(W, y)
        if ctx.branch(z3.Or(p > z3.BitVecVal(MAX_INT, 2 * W), p < z3.BitVecVal(MIN_INT, 2 * W))):
            raise VMError("TypeError", "integer overflow")
        return vint(z3.Extract(W - 1, 0, p))
    if ctx.branch(y == 0):
        raise VMError("TypeError", "zero divisor")
    if op == "div":
        if ctx.branch(z3.And(x == MINV, y == z3.BitVecVal(-1, W))):
            raise VMError("TypeError", "integer overflow")
        return vint(x / y)
    return vint(z3.SRem(x, y))


def cmp_terms(op, a, b, sym):
    if sym:
        a, b = bv(a), bv(b)
    return {"gt": a > b, "gte": a >= b, "lt": a < b, "lte": a <= b, "eq": a == b, "neq": a != b}[op]


def binop(m, op, l, r):
    heap = m.heap
    if op in ("and", "or"):
        if l.kind != "bool" or r.kind != "bool":
            raise VMError("TypeError", "logic on non-bools")
        if is_sym(l.p) or is_sym(r.p):
            return vbool((z3.And if op == "and" else z3.Or)(zbool(l.p), zbool(r.p)))
        return vbool((l.p and r.p) if op == "and" else (l.p or r.p))
    if l.kind != r.kind:
        raise VMError("TypeError", "operand types differ")
    k = l.kind
    if op in ("add", "sub", "mul", "div", "rem"):
        if k == "int":
            return int_arith(m, op, l.p, r.p)
        if k == "float":
            return V("float", float_arith(op, l.p, r.p))
        raise VMError("TypeError", "arithmetic on " + k)
    # comparisons
    if k == "arr" or (k == "func" and op not in ("eq", "neq")):
        raise VMError("TypeError", "cannot compare " + k)
    if k == "null":
        return vbool(op in ("gte", "lte", "eq"))
    if k == "int":
        sym = is_sym(l.p) or is_sym(r.p)
        return vbool(cmp_terms(op, l.p, r.p, sym))
    if k == "bool":
        if is_sym(l.p) or is_sym(r.p):
            a, b = zbool(l.p), zbool(r.p)
            lt = z3.And(z3.Not(a), b)
            eq = a == b
            return vbool({"lt": lt, "lte": z3.Or(lt, eq), "gt": z3.And(a, z3.Not(b)),
                          "gte": z3.Or(z3.And(a, z3.Not(b)), eq), "eq": eq, "neq": z3.Not(eq)}[op])
        return vbool(cmp_terms(op, int(l.p), int(r.p), False))
    if k == "float":
        return vbool(cmp_terms(op, l.p, r.p, False))
    if k == "str":
        a = "".join(heap.get(l.p)).encode("utf-8")
        b = "".join(heap.get(r.p)).encode("utf-8")
        return vbool(cmp_terms(op, a, b, False))
    if k == "func":
        a, b = (l.p, l.q, l.r), (r.p, r.q, r.r)
        return vbool((a == b) if op == "eq" else (a != b))
    raise AssertionError(k)


def float_arith(op, a, b):
    try:
        if op == "add":
            return a + b
        if op == "sub":
            return a - b
        if op == "mul":
            return a * b
        if op == "div":
            if b == 0.0:
                if a != a or a == 0.0:
                    return float("nan")
                neg = (math.copysign(1.0, a) < 0) != (math.copysign(1.0, b) < 0)
                return float("-inf") if neg else float("inf")
            return a / b
        # rem: fmod semantics (sign of the dividend)
        if b == 0.0 or math.isinf(a) or a != a or b != b:
            return float("nan")
        return math.fmod(a, b)
    except OverflowError:
        raise Unsupported("python float overflow trap")


# ------------------------------------------------------------------ indexing
def norm_index(m, idx, n):
    """-> concrete position 0..n-1, raising IndexError on the out-of-range path (forks on a symbolic index)"""
    ctx = m.ctx
    i = idx.p
    if not is_sym(i):
        j = i + n if i < 0 else i
        if j < 0 or j >= n:
            raise VMError("IndexError", "index out of range")
        return j
    for k in range(-n, n):
        if ctx.branch(i == z3.BitVecVal(k, W)):
            return k + n if k < 0 else k
    raise VMError("IndexError", "index out of range")


def index_get(m, left, idx):
    if idx.kind != "int":
        raise VMError("TypeError", "index is not an int")
    if left.kind == "arr":
        items = m.heap.get(left.p)
        return items[norm_index(m, idx, len(items))]
    if left.kind == "str":
        chars = m.heap.get(left.p)
        j = norm_index(m, idx, len(chars))
        return V("str", m.heap.alloc("str", [chars[j]]))
    raise VMError("TypeError", "cannot index " + left.kind)


def index_set(m, left, idx, val):
    if idx.kind != "int":
        raise VMError("TypeError", "index is not an int")
    if left.kind == "arr":
        items = m.heap.get(left.p)
        items[norm_index(m, idx, len(items))] = val
        return
    if left.kind == "str":
        chars = m.heap.get(left.p)
        j = norm_index(m, idx, len(chars))
        if val.kind != "str":
            raise VMError("TypeError", "can only store text in text")
        src = list(m.heap.get(val.p))
        chars[j:j + 1] = src
        return
    raise VMError("TypeError", "cannot index " + left.kind)


# ------------------------------------------------------------------ builtins (builtins.rs)
RUST_WS = "".join(map(chr, [9, 10, 11, 12, 13, 32, 0x85, 0xA0, 0x1680] + list(range(0x2000, 0x200B)) + [0x2028, 0x2029, 0x202F, 0x205F, 0x3000]))
INT_RE = re.compile(r"^[+-]?[0-9]+$")
FLOAT_RE = re.compile(r"^[+-]?(([0-9]+(\.[0-9]*)?|\.[0-9]+)([eE][+-]?[0-9]+)?|inf|infinity|nan)$", re.I)


def replacen_once(segs, repl):
    """str::replacen("{}", repl, 1) on a segment list"""
    for i, s in enumerate(segs):
        if isinstance(s, str):
            p = s.find("{}")
            if p >= 0:
                return segs[:i] + [s[:p]] + repl + [s[p + 2:]] + segs[i + 1:]
    return segs


def call_builtin(m, name, args):
    heap = m.heap
    if name == "print":
        if args:
            # builtins.rs call_print: one left-to-right scan of the format text; inserted text is not rescanned
            rest = norm_segments(display(args[0], heap))
            done = []
            for a in args[1:]:
                hit = None
                for i, sg in enumerate(rest):
                    if isinstance(sg, str) and sg.find("{}") >= 0:
                        hit = (i, sg.find("{}"))
                        break
                if hit is None:
                    break
                i, p = hit
                done += rest[:i] + [rest[i][:p]] + display(a, heap)
                rest = [rest[i][p + 2:]] + rest[i + 1:]
            m.out += norm_segments(done + rest)
        m.out.append("\n")
        return NULL
    if len(args) != 1:
        raise VMError("ArgumentError", "%s expects 1 argument" % name)
    a = args[0]
    k = a.kind
    if name == "type":
        return V("str", heap.alloc("str", list(TYPE_NAME[k])))
    if name == "string":
        if k == "str":
            return a
        if k in ("arr", "func"):
            raise VMError("ArgumentError", "string of " + k)
        if k == "null":
            t = ""
        elif k == "bool":
            if is_sym(a.p):
                raise Unsupported("string() of a symbolic bool")
            t = "true" if a.p else "false"
        elif k == "float":
            t = fmt_float(a.p)
        else:
            if is_sym(a.p):
                raise Unsupported("string() of a symbolic int")
            t = str(a.p)
        return V("str", heap.alloc("str", list(t)))
    if name == "bool":
        if k == "bool":
            return a
        if k == "func":
            raise VMError("ArgumentError", "bool of functie")
        if k == "null":
            return vbool(False)
        if k == "float":
            return vbool(a.p > 0.0)
        if k == "int":
            return vbool(bv(a.p) > 0 if is_sym(a.p) else a.p > 0)
        return vbool(len(heap.get(a.p)) > 0)
    if name == "int":
        if k == "int":
            return a
        if k in ("arr", "func"):
            raise VMError("ArgumentError", "int of " + k)
        if k == "null":
            return vint(0)
        if k == "bool":
            if is_sym(a.p):
                return vint(z3.If(a.p, z3.BitVecVal(1, W), z3.BitVecVal(0, W)))
            return vint(1 if a.p else 0)
        if k == "float":
            f = a.p
            if f != f:
                r = 0
            elif math.isinf(f):
                r = (1 << 63) - 1 if f > 0 else -(1 << 63)
            else:
                r = max(-(1 << 63), min((1 << 63) - 1, int(f)))
        else:
            t = "".join(heap.get(a.p)).strip(RUST_WS)
            if not INT_RE.match(t):
                raise VMError("ArgumentError", "not an integer text")
            r = int(t)
            if r > (1 << 63) - 1 or r < -(1 << 63):
                raise VMError("ArgumentError", "integer text out of range")
        if r > MAX_INT or r < MIN_INT:
            raise VMError("ArgumentError", "value outside the integer range")
        return vint(r)
    if name == "float":
        if k == "float":
            return a
        if k in ("arr", "func"):
            raise VMError("ArgumentError", "float of " + k)
        if k == "null":
            return V("float", 0.0)
        if k == "bool":
            if is_sym(a.p):
                raise Unsupported("float() of a symbolic bool")
            return V("float", 1.0 if a.p else 0.0)
        if k == "int":
            if is_sym(a.p):
                raise Unsupported("float() of a symbolic int")
            return V("float", float(a.p))
        t = "".join(heap.get(a.p)).strip(RUST_WS)
        if not FLOAT_RE.match(t):
            raise VMError("ArgumentError", "not a float text")
        return V("float", float(t))
    if name == "lengte":
        if k in ("str", "arr"):
            return vint(len(heap.get(a.p)))
        raise VMError("TypeError", "lengte of " + k)
    raise AssertionError(name)
