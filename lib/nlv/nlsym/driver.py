"""nlsym driver: skeleton -> real parser/compiler (native) -> symbolic VM run vs reference -> solver verdicts -> native replay."""
import hashlib
import itertools
import json
import os
import re
import subprocess
import time

import z3

from .. import overlay as ov
from .core import (ANY_ERR, MAX_INT, W, Engine, bv, concretize_structure, differs, is_sym, seg_differs,
                   norm_segments)
from .refint import Ref
from .vmexec import HOLE_BASE, Machine, Program

HOLE_RE = re.compile(r"⟦(\d+)⟧")


class Native:
    """The real front end and the real interpreter, built from the overlay of /repo's current tree."""

    def __init__(self, bin_path=None, bin_release=None):
        if bin_path is None:
            self.overlay = ov.native_overlay()
            self.bin = self.overlay.build_native()
        else:
            self.overlay = None
            self.bin = bin_path
        self.bin_release = bin_release
        p = subprocess.run([self.bin, "optable"], capture_output=True, text=True, timeout=30)
        self.optable = json.loads(p.stdout)
        self.calls = 0

    def _batch(self, binary, cmd, bodies, timeout=120):
        inp = "\0".join(cmd + "\n" + b for b in bodies)
        p = subprocess.run([binary], input=inp, capture_output=True, text=True, timeout=timeout)
        self.calls += 1
        lines = [l for l in p.stdout.split("\n") if l]
        if p.returncode != 0 or len(lines) != len(bodies):
            raise RuntimeError("nl-dump %s failed (rc=%s, %d/%d answers): %s" % (cmd, p.returncode, len(lines), len(bodies), p.stderr[-500:]))
        return [json.loads(l) for l in lines]

    def dump_many(self, sources):
        return self._batch(self.bin, "dump", sources)

    def session_dump(self, lines):
        return self._batch(self.bin, "sessiondump", ["\x01".join(lines)])[0]

    def eval_one(self, src, release=False, timeout=20, cmd="eval"):
        """Real evaluation in its own process: panics are caught in-process, aborts/hangs by the parent."""
        binary = self.bin
        if release:
            if self.bin_release is None:
                if self.overlay is None:
                    return {"result": {"skipped": "no release binary in this worker"}, "output": ""}
                self.bin_release = self.overlay.build_native(release=True)
            binary = self.bin_release
        try:
            p = subprocess.run([binary], input=cmd + "\n" + src, capture_output=True, text=True, timeout=timeout)
        except subprocess.TimeoutExpired:
            return {"result": {"hang": timeout}, "output": ""}
        self.calls += 1
        out = p.stdout.strip()
        if p.returncode != 0 or not out:
            return {"result": {"abort": p.returncode, "stderr": p.stderr[-300:]}, "output": ""}
        return json.loads(out.split("\n")[-1])

    def eval_many(self, sources, timeout=60):
        """Real evaluation of many programs in ONE process (dev profile); falls back to one process each
        when the batch dies (abort / hang), so a crashing program is attributed correctly."""
        if not sources:
            return []
        try:
            return self._batch(self.bin, "eval", sources, timeout=timeout)
        except Exception:
            return [self.eval_one(s) for s in sources]

    def eval_many_release_reversed(self, sources, timeout=60):
        """the same programs in the RELEASE build, in one process, in REVERSED order (a different build profile and a
        different history of earlier evaluations in the process); None when there is no release binary or the batch dies"""
        if not sources or self.bin_release is None:
            return None
        try:
            return self._batch(self.bin_release, "eval", list(reversed(sources)), timeout=timeout)[::-1]
        except Exception:
            return None

    def close(self):
        if self.overlay is not None:
            self.overlay.cleanup()


# ------------------------------------------------------------------ skeleton instantiation
def hole_ids(skel):
    return sorted(set(int(x) for x in HOLE_RE.findall(skel)))


def fixed_int_literals(ast):
    acc = set()

    def walk(x):
        if isinstance(x, dict):
            if x.get("e") == "int":
                v = int(x["v"])
                if not (HOLE_BASE < v < HOLE_BASE + 1000):
                    acc.add(v)
            for y in x.values():
                walk(y)
        elif isinstance(x, list):
            for y in x:
                walk(y)
    walk(ast)
    return sorted(acc)


def patterns_for(holes, literals, limit, rng=None):
    """Equality patterns of the holes among themselves and with the fixed literals of the program.
    A pattern maps hole -> ('class', c) | ('lit', v).  First: all distinct.  Then single merges, then the rest."""
    n = len(holes)
    first = {h: ("class", i) for i, h in enumerate(holes)}
    out = [first]
    seen = {tuple(sorted(first.items()))}

    def add(p):
        key = tuple(sorted(p.items()))
        if key not in seen:
            seen.add(key)
            out.append(p)
    # one hole equal to one literal; two holes equal
    for h in holes:
        for v in literals:
            p = dict(first)
            p[h] = ("lit", v)
            add(p)
    for a, b in itertools.combinations(holes, 2):
        p = dict(first)
        p[b] = p[a]
        add(p)
    if n <= 3:
        # everything else (all set partitions x literal assignments), bounded
        opts = [[("class", i)] + [("lit", v) for v in literals] for i in range(n)]

        def rec(i, cur, nclasses):
            if len(out) >= limit:
                return
            if i == n:
                add(dict(cur))
                return
            h = holes[i]
            for c in range(nclasses + 1):
                cur[h] = ("class", c)
                rec(i + 1, cur, max(nclasses, c + 1))
            for v in literals:
                cur[h] = ("lit", v)
                rec(i + 1, cur, nclasses)
            del cur[h]
        rec(0, {}, 0)
    return out[:limit]


def instantiate(skel, pattern):
    def rep(m):
        k, v = pattern[int(m.group(1))]
        return str(HOLE_BASE + 1 + v) if k == "class" else str(v)
    return HOLE_RE.sub(rep, skel)


def concretize_source(skel, pattern, model_vals):
    def rep(m):
        k, v = pattern[int(m.group(1))]
        return str(model_vals[v]) if k == "class" else str(v)
    return HOLE_RE.sub(rep, skel)


# ------------------------------------------------------------------ outcome comparison
class Finding:
    def __init__(self, kind, detail, source, skeleton, pattern=None, role=None):
        self.kind = kind  # mismatch | unsafe | residue
        self.detail = detail
        self.source = source
        self.skeleton = skeleton
        self.role = role or kind
        self.confirmed = None
        self.native = None
        self.variant_source = None

    def to_json(self):
        return {"kind": self.kind, "detail": self.detail, "source": self.source, "skeleton": self.skeleton,
                "confirmed": self.confirmed, "native": self.native, "role": self.role, "variant_source": self.variant_source}


def out_differs(a, b):
    return seg_differs(a, b)


def render(segs, model):
    out = []
    for s in segs:
        if isinstance(s, str):
            out.append(s)
        elif s[0] == "int":
            v = s[1]
            out.append(str(model.eval(v, model_completion=True).as_signed_long() if is_sym(v) else v))
        else:
            v = s[1]
            b = z3.is_true(model.eval(v, model_completion=True)) if is_sym(v) else bool(v)
            out.append("ja" if b else "nee")
    return "".join(out)


class ByModel:
    """outputs whose segment shapes differ: decided on a model of the path condition (witness search, incomplete)"""
    def __init__(self, a, b):
        self.a, self.b = a, b


def compare(vm, ref):
    """-> (formula|True|False|None, text).  None = not comparable (masked / diverged / unsupported)."""
    if vm[0] in ("diverged", "undecided", "unsupported") or ref[0] in ("diverged", "undecided", "unsupported"):
        return None, "not compared: vm=%s ref=%s" % (vm[0], ref[0])
    if vm[0] == "unsafe":
        return True, "machine precondition violated: " + vm[1]
    if vm[0] == "ok" and ref[0] == "ok":
        parts = []
        od = out_differs(vm[2], ref[2])
        if od is True:
            return True, "printed output differs"
        if od is None:
            return ByModel(vm[2], ref[2]), "printed output differs"
        if od is not False:
            parts.append(od)
        if vm[3] != 0:
            return True, "operand stack holds %d slot(s) at Halt (residue)" % vm[3]
        if ref[1] is not None:
            d = differs(vm[1], ref[1])
            if d is True:
                return True, "final value differs: machine %r, reference %r" % (vm[1], ref[1])
            if d is not False:
                parts.append(d)
        if not parts:
            return False, "agree"
        return z3.Or(*parts), "value/output differs for some hole values"
    if vm[0] == "err" and ref[0] == "err":
        if vm[1] not in ref[1]:
            return True, "error kind %s, reference allows %s (%s)" % (vm[1], sorted(ref[1]), ref[3])
        od = out_differs(vm[2], ref[2])
        if od is True:
            return True, "output before the error differs"
        if od is None:
            return ByModel(vm[2], ref[2]), "output before the error differs"
        if od is not False:
            return od, "output before the error differs for some hole values"
        return False, "agree"
    if vm[0] == "ok" and ref[0] == "err":
        return True, "machine returns a value, reference raises %s (%s)" % (sorted(ref[1]), ref[3])
    if vm[0] == "err" and ref[0] == "ok":
        return True, "machine raises %s (%s), reference returns a value" % (vm[1], vm[3] if len(vm) > 3 else "")
    return None, "not compared"


class SkeletonChecker:
    def __init__(self, native, max_steps=400, max_paths=256, pattern_limit=12, solver_timeout_ms=10000, skeleton_budget_s=40):
        self.native = native
        self.skeleton_budget_s = skeleton_budget_s
        self.max_witnesses = 96
        self.deadline = None
        self.max_steps = max_steps
        self.max_paths = max_paths
        self.pattern_limit = pattern_limit
        self.solver_timeout_ms = solver_timeout_ms
        self.stats = dict(skeletons=0, programs=0, vm_paths=0, pairs=0, compared=0, not_compared=0, undecided=0,
                          queries=0, solver_s=0.0, compile_errors=0, unsupported=0, diverged=0, truncated=0,
                          typing_queries=0)
        self.samples = []
        self.witness_log = []  # a few (program, real outcome) pairs per skeleton for the mixed-history batch (props.mixed_history)

    def _holes(self, pattern):
        classes = sorted(set(v for k, v in pattern.values() if k == "class"))
        return {HOLE_BASE + 1 + c: z3.BitVec("h%d" % c, W) for c in classes}

    def check(self, skel, expect_compile_error=None, oracle="ref", variant_of=None):
        """Explore all paths of all equality patterns of one skeleton; return list of Findings (unconfirmed)."""
        self.stats["skeletons"] += 1
        self.deadline = time.time() + self.skeleton_budget_s
        hs = hole_ids(skel)
        base = {h: ("class", i) for i, h in enumerate(hs)}
        d0 = self.native.dump_many([instantiate(skel, base)])[0]
        if "ast" not in d0:
            # does not parse: outside the claim of the S engine (front end), recorded
            self.stats["parse_errors"] = self.stats.get("parse_errors", 0) + 1
            self.parse_error_names = getattr(self, "parse_error_names", []) + [skel[:80]]
            return []
        lits = [v for v in fixed_int_literals(d0["ast"]) if v <= MAX_INT]
        pats = patterns_for(hs, lits, self.pattern_limit)
        srcs = [instantiate(skel, p) for p in pats]
        dumps = self.native.dump_many(srcs)
        findings = []
        for pat, src, d in zip(pats, srcs, dumps):
            if time.time() > self.deadline:
                self.stats["truncated"] += 1
                break
            self.stats["programs"] += 1
            findings += self.check_program(skel, pat, src, d)
        return findings

    def check_program(self, skel, pat, src, d):
        findings = []
        eng = Engine(self.solver_timeout_ms)
        holes = self._holes(pat)
        hv = list(holes.values())
        for h in hv:
            eng.solver.add(h >= 0, h <= z3.BitVecVal(MAX_INT, W))
        for a, b in itertools.combinations(hv, 2):
            eng.solver.add(a != b)
        lits = fixed_int_literals(d.get("ast", []))
        for h in hv:
            for v in lits:
                if v <= MAX_INT:
                    eng.solver.add(h != z3.BitVecVal(v, W))

        def model_source(model):
            vals = {}
            for ph, var in holes.items():
                vals[ph - HOLE_BASE - 1] = model.eval(var, model_completion=True).as_long() if model is not None else 0
            return concretize_source(skel, pat, vals)

        if "code" not in d:
            # compile error: the reference must reject the program statically with a compatible kind
            self.stats["compile_errors"] += 1
            if "ast" not in d:
                return findings
            err = d["error"]
            for ref_out, _ in eng.explore(lambda c: Ref(c, holes).run_program(json.loads(json.dumps(d["ast"]))), 4):
                if ref_out[0] == "err" and ref_out[4] and err["kind"] in ref_out[1]:
                    continue
                if ref_out[0] in ("unsupported", "undecided"):
                    continue
                m = eng.solver.model() if eng.check() == z3.sat else None
                findings.append(Finding("mismatch", "compiler rejects the program with %s (%s); reference: %r" % (err["kind"], err["msg"], ref_out[:2]),
                                        model_source(m), skel, role="compile-error"))
            return findings

        prog = Program(d["code"], self.native.optable, holes)
        # C02/C11: abstract stack typing of the emitted code (all syntactic paths, any iteration count)
        from .typing import stack_typing
        self.stats["typing_queries"] += 1
        ty = stack_typing(prog)
        if ty is not None:
            m = eng.solver.model() if eng.check() == z3.sat else None
            findings.append(Finding("typing", ty, model_source(m), skel, role="stack-typing"))

        def run_vm(ctx):
            m = Machine(ctx, max_steps=self.max_steps)
            return m.run(prog)

        witnesses = []

        for vm_out, ctx in eng.explore(run_vm, self.max_paths):
            self.stats["vm_paths"] += 1
            if time.time() > self.deadline:
                eng.truncated = True
                break
            if vm_out[0] == "undecided":
                self.stats["undecided"] += 1
                continue
            if vm_out[0] == "unsupported":
                self.stats["unsupported"] += 1
                continue
            if vm_out[0] == "diverged":
                self.stats["diverged"] += 1
                continue
            # one concrete witness of this path: validated against the REAL interpreter below
            if vm_out[0] in ("ok", "err") and len(witnesses) < self.max_witnesses and eng.check() == z3.sat:
                mdl = eng.solver.model()
                exp = ("ok", concretize_structure(vm_out[1], mdl), render(vm_out[2], mdl)) if vm_out[0] == "ok" \
                    else ("err", vm_out[1], render(vm_out[2], mdl))
                witnesses.append((model_source(mdl), exp))
                # further witnesses of the same path at values where implementations like to special-case: every hole a power
                # of two / one below a power of two / tiny (each only if the path admits it); seen sources are not repeated
                if hv and len(witnesses) < self.max_witnesses:
                    one = z3.BitVecVal(1, W)
                    biases = [z3.And(*[z3.And(h >= 2, (h & (h - one)) == 0) for h in hv]),
                              z3.And(*[z3.And(h >= 3, ((h + one) & h) == 0) for h in hv]),
                              z3.And(*[h <= 4 for h in hv])]
                    seen_src = {witnesses[-1][0]}
                    for b in biases:
                        if len(witnesses) >= self.max_witnesses or eng.check(b) != z3.sat:
                            continue
                        m2 = eng.solver.model()
                        src2 = model_source(m2)
                        if src2 in seen_src:
                            continue
                        seen_src.add(src2)
                        exp2 = ("ok", concretize_structure(vm_out[1], m2), render(vm_out[2], m2)) if vm_out[0] == "ok" \
                            else ("err", vm_out[1], render(vm_out[2], m2))
                        witnesses.append((src2, exp2))
            # reference under the machine's path condition
            ast = json.loads(json.dumps(d["ast"]))
            for ref_out, _ in eng.explore(lambda c: Ref(c, holes, fuel=self.max_steps * 12).run_program(ast), 16):
                self.stats["pairs"] += 1
                f, text = compare(vm_out, ref_out)
                if f is None:
                    self.stats["not_compared"] += 1
                    continue
                self.stats["compared"] += 1
                if f is False:
                    continue
                if isinstance(f, ByModel):
                    r = eng.check()
                    if r == z3.sat:
                        mdl = eng.solver.model()
                        if render(f.a, mdl) == render(f.b, mdl):
                            self.stats["undecided"] += 1
                            continue
                elif f is True:
                    r = eng.check()
                else:
                    r = eng.check(f)
                if r == z3.unknown:
                    self.stats["undecided"] += 1
                    continue
                if r == z3.sat:
                    model = eng.solver.model()
                    kind = "unsafe" if vm_out[0] == "unsafe" else ("residue" if "residue" in text else "mismatch")
                    findings.append(Finding(kind, text, model_source(model), skel))
        # per-path witness validation: the real interpreter must do what the machine specification says
        if witnesses:
            outs = self.native.eval_many([w[0] for w in witnesses])
            for (wsrc, _), j in list(zip(witnesses, outs))[:3] + list(zip(witnesses, outs))[-2:]:
                if len(self.witness_log) < 8 and native_outcome(j)[0] in ("ok", "err") and len(wsrc) < 2000:
                    self.witness_log.append((wsrc, {"result": j.get("result"), "output": j.get("output", "")}))
            for (wsrc, exp), j in zip(witnesses, outs):
                self.stats["witnesses"] = self.stats.get("witnesses", 0) + 1
                no = native_outcome(j)
                bad = None
                if no[0] != exp[0]:
                    bad = "real interpreter: %r; machine specification: %r" % (no[:2], exp[:2])
                elif no[0] == "ok" and differs(no[1], exp[1]) is True:
                    bad = "real value %r; machine specification %r" % (no[1], exp[1])
                elif no[0] == "err" and no[1] != exp[1]:
                    bad = "real error kind %s; machine specification %s" % (no[1], exp[1])
                elif j.get("output", "") != exp[2]:
                    bad = "real output %r; machine specification %r" % (j.get("output", "")[:80], exp[2][:80])
                if bad:
                    findings.append(Finding("witness", "the real interpreter deviates from the machine specification on a path witness: " + bad,
                                            wsrc, skel, role="witness"))
                elif j.get("leak") not in (None, 0):
                    # heap ledger of the real run (C03/C04): blocks still allocated after the machine is gone and the caller released the result
                    n = j["leak"]
                    findings.append(Finding("ledger", "heap ledger of the real run on a path witness: %s" % (
                        "%d block(s) never released" % n if n > 0 else "%d release(s) too many (something was released twice)" % -n), wsrc, skel, role="ledger"))
                self.stats["ledger_audits"] = self.stats.get("ledger_audits", 0) + (1 if j.get("leak") is not None else 0)
            # the same witnesses in the release build, in reversed order in one process: the outcome of an evaluation must not
            # depend on the build profile or on what was evaluated before in the same process
            outs2 = self.native.eval_many_release_reversed([w[0] for w in witnesses])
            if outs2 is not None:
                for (wsrc, exp), j, j2 in zip(witnesses, outs, outs2):
                    self.stats["profile_history_pairs"] = self.stats.get("profile_history_pairs", 0) + 1
                    if native_outcome(j)[0] in ("panic", "abort", "hang") or native_outcome(j2)[0] in ("panic", "abort", "hang"):
                        continue  # reported above / by the replay
                    if j.get("result") != j2.get("result") or j.get("output", "") != j2.get("output", ""):
                        a, b = native_outcome(j), native_outcome(j2)
                        same_err = a[0] == "err" and b[0] == "err" and a[1] == b[1] and j.get("output", "") == j2.get("output", "")
                        if not same_err:
                            findings.append(Finding("witness", "the dev build (program evaluated in source order) and the release build (reversed order, same process) disagree: "
                                                    "%r / %r vs %r / %r" % (a[:2], j.get("output", "")[:60], b[:2], j2.get("output", "")[:60]), wsrc, skel, role="witness"))
        if getattr(eng, "truncated", False):
            self.stats["truncated"] += 1
        self.stats["queries"] += eng.queries
        self.stats["solver_s"] += eng.solver_s
        if len(self.samples) < 8:
            self.samples.append({"skeleton": skel, "program": src, "pattern": {str(k): list(v) for k, v in pat.items()},
                                 "vm_paths_so_far": self.stats["vm_paths"]})
        return findings


def compare_vm_vm(a, b, compare_value=True):
    """2-safety comparison of two machine outcomes (C10): same value, same output, same error kind."""
    for o in (a, b):
        if o[0] in ("diverged", "undecided", "unsupported"):
            return None, "not compared: %s / %s" % (a[0], b[0])
    for o, nm in ((a, "original"), (b, "variant")):
        if o[0] == "unsafe":
            return True, "machine precondition violated in the %s: %s" % (nm, o[1])
    if a[0] != b[0]:
        return True, "original ends with %s, variant with %s" % (a[:2] if a[0] == "err" else a[0], b[:2] if b[0] == "err" else b[0])
    od = out_differs(a[2], b[2])
    if od is True:
        return True, "printed output differs between original and variant"
    if od is None:
        return ByModel(a[2], b[2]), "printed output differs between original and variant"
    parts = [] if od is False else [od]
    if a[0] == "err":
        if a[1] != b[1]:
            return True, "error kind differs: %s vs %s" % (a[1], b[1])
    elif compare_value:
        d = differs(a[1], b[1])
        if d is True:
            return True, "final value differs: original %r, variant %r" % (a[1], b[1])
        if d is not False:
            parts.append(d)
    if not parts:
        return False, "agree"
    return z3.Or(*parts), "value/output differs between original and variant for some hole values"


def check_pair(checker, skel_a, skel_b):
    """C10: compile both programs with the real compiler, run both under the same holes, ask for a difference."""
    st = checker.stats
    st["skeletons"] += 1
    checker.deadline = time.time() + checker.skeleton_budget_s
    hs = sorted(set(hole_ids(skel_a)) | set(hole_ids(skel_b)))
    base = {h: ("class", i) for i, h in enumerate(hs)}
    d0 = checker.native.dump_many([instantiate(skel_a, base), instantiate(skel_b, base)])
    if "ast" not in d0[0] or "ast" not in d0[1]:
        st["parse_errors"] = st.get("parse_errors", 0) + 1
        return []
    lits = sorted(set(v for v in fixed_int_literals(d0[0]["ast"]) + fixed_int_literals(d0[1]["ast"]) if v <= MAX_INT))
    pats = patterns_for(hs, lits, checker.pattern_limit)
    srcs = []
    for p in pats:
        srcs += [instantiate(skel_a, p), instantiate(skel_b, p)]
    dumps = checker.native.dump_many(srcs)
    findings = []
    for i, pat in enumerate(pats):
        if time.time() > checker.deadline:
            st["truncated"] += 1
            break
        da, db = dumps[2 * i], dumps[2 * i + 1]
        st["programs"] += 2
        eng = Engine(checker.solver_timeout_ms)
        holes = checker._holes(pat)
        hv = list(holes.values())
        for h in hv:
            eng.solver.add(h >= 0, h <= z3.BitVecVal(MAX_INT, W))
        for x, y in itertools.combinations(hv, 2):
            eng.solver.add(x != y)
        for h in hv:
            for v in lits:
                eng.solver.add(h != z3.BitVecVal(v, W))

        def model_sources(model):
            vals = {ph - HOLE_BASE - 1: (model.eval(var, model_completion=True).as_long() if model is not None else 0) for ph, var in holes.items()}
            return concretize_source(skel_a, pat, vals), concretize_source(skel_b, pat, vals)

        if ("code" in da) != ("code" in db) or ("code" not in da and da["error"]["kind"] != db["error"]["kind"]):
            m = eng.solver.model() if eng.check() == z3.sat else None
            sa, sb = model_sources(m)
            findings.append(Finding("pair", "one program compiles, the other is rejected (or with another error kind)", sa, skel_a + "\n=== variant ===\n" + skel_b, role="pair"))
            findings[-1].variant_source = sb
            continue
        if "code" not in da:
            continue
        pa = Program(da["code"], checker.native.optable, holes)
        pb = Program(db["code"], checker.native.optable, holes)
        cmpv = bool(da["ast"]) and da["ast"][-1]["s"] == "expr"
        for out_a, _ in eng.explore(lambda c: Machine(c, max_steps=checker.max_steps).run(pa), checker.max_paths):
            st["vm_paths"] += 1
            if time.time() > checker.deadline:
                break
            if out_a[0] in ("undecided", "unsupported", "diverged"):
                st[{"undecided": "undecided", "unsupported": "unsupported", "diverged": "diverged"}[out_a[0]]] += 1
                continue
            for out_b, _ in eng.explore(lambda c: Machine(c, max_steps=checker.max_steps * 2).run(pb), 16):
                st["pairs"] += 1
                f, text = compare_vm_vm(out_a, out_b, cmpv)
                if f is None:
                    st["not_compared"] += 1
                    continue
                st["compared"] += 1
                if f is False:
                    continue
                if isinstance(f, ByModel):
                    r = eng.check()
                    if r == z3.sat and render(f.a, eng.solver.model()) == render(f.b, eng.solver.model()):
                        st["undecided"] += 1
                        continue
                elif f is True:
                    r = eng.check()
                else:
                    r = eng.check(f)
                if r == z3.unknown:
                    st["undecided"] += 1
                elif r == z3.sat:
                    sa, sb = model_sources(eng.solver.model())
                    fd = Finding("pair", text, sa, skel_a + "\n=== variant ===\n" + skel_b, role="pair")
                    fd.variant_source = sb
                    findings.append(fd)
        st["queries"] += eng.queries
        st["solver_s"] += eng.solver_s
    if len(checker.samples) < 8:
        checker.samples.append({"original": skel_a, "variant": skel_b, "patterns": len(pats)})
    return findings


def confirm_pair(native, finding):
    """Replay both programs against the real interpreter; confirmed when their real outcomes differ (or one crashes)."""
    res, why, confirmed = {}, [], False
    for prof in ("dev", "release"):
        ja = native.eval_one(finding.source, release=(prof == "release"))
        jb = native.eval_one(finding.variant_source, release=(prof == "release"))
        if "skipped" in ja["result"] or "skipped" in jb["result"]:
            continue
        na, nb = native_outcome(ja), native_outcome(jb)
        res[prof] = {"original": repr(na)[:200], "variant": repr(nb)[:200], "out_a": ja.get("output", "")[:200], "out_b": jb.get("output", "")[:200]}
        for n, nm in ((na, "original"), (nb, "variant")):
            if n[0] in ("panic", "abort", "hang"):
                confirmed = True
                why.append("%s: %s %s: %s" % (prof, nm, n[0], str(n[1:])[:100]))
        if na[0] != nb[0] or (na[0] == "err" and na[1] != nb[1]):
            confirmed = True
            why.append("%s: original %r, variant %r" % (prof, na[:2], nb[:2]))
        elif ja.get("output", "") != jb.get("output", ""):
            confirmed = True
            why.append("%s: outputs differ" % prof)
        elif na[0] == "ok" and differs(na[1], nb[1]) is True:
            # value only meaningful when the original ends with an expression statement (checked symbolically)
            confirmed = True
            why.append("%s: values differ: %r vs %r" % (prof, na[1], nb[1]))
    finding.confirmed = confirmed
    finding.native = {"why": why, "runs": res}
    return confirmed


# ------------------------------------------------------------------ native replay (DESIGN section 3)
def native_outcome(j):
    """normalise nl-dump eval JSON -> ('ok', structure) | ('err', kind) | ('panic', msg) | ('abort',) | ('hang',)"""
    r = j["result"]
    if "ok" in r:
        return ("ok", value_json_to_structure(r["ok"]))
    if "error" in r:
        return ("err", r["error"]["kind"], r["error"]["stage"])
    if "panic" in r:
        return ("panic", r["panic"])
    if "abort" in r:
        return ("abort", r["abort"])
    return ("hang",)


def value_json_to_structure(v):
    import struct
    t = v["t"]
    if t == "null":
        return ("null",)
    if t == "bool":
        return ("bool", bool(v["v"]))
    if t == "int":
        return ("int", int(v["v"]))
    if t == "float":
        return ("float", struct.unpack("<d", struct.pack("<Q", int(v["bits"])))[0])
    if t == "str":
        return ("str", v["v"])
    if t == "func":
        return ("func", None, None)
    if t == "arr":
        if v.get("cut"):
            return ("arr", "cut")
        return ("arr", tuple(value_json_to_structure(x) for x in v["v"]))
    raise AssertionError(t)


def ref_concrete(native, src):
    """Reference outcome of a concrete program (AST from the real parser)."""
    d = native.dump_many([src])[0]
    if "ast" not in d:
        return ("parse-error", d.get("error", {}).get("kind")), d
    eng = Engine(5000)
    outs = [o for o, _ in eng.explore(lambda c: Ref(c, {}, fuel=200000).run_program(json.loads(json.dumps(d["ast"]))), 2)]
    return outs[0], d


def out_text(segs):
    return "".join(s if isinstance(s, str) else "<?>" for s in segs)


def confirm(native, finding, profiles=("dev", "release")):
    """Replay a candidate against the real interpreter (dev and release). Sets finding.confirmed / finding.native."""
    src = finding.source
    ref, d = ref_concrete(native, src)
    res = {}
    confirmed = False
    why = []
    for prof in profiles:
        j = native.eval_one(src, release=(prof == "release"))
        if "skipped" in j["result"]:
            continue
        no = native_outcome(j)
        res[prof] = {"outcome": repr(no)[:300], "output": j.get("output", "")[:300]}
        if no[0] in ("panic", "abort", "hang"):
            if ref[0] == "diverged":
                continue
            confirmed = True
            why.append("%s: real interpreter %s: %s" % (prof, no[0], str(no[1:])[:120]))
            continue
        if ref[0] in ("diverged", "unsupported", "undecided", "parse-error"):
            continue
        if no[0] == "ok":
            if ref[0] == "err":
                confirmed = True
                why.append("%s: real value, reference error %s" % (prof, sorted(ref[1])))
            elif ref[0] == "ok":
                if ref[1] is not None and differs(no[1], ref[1]) is True:
                    confirmed = True
                    why.append("%s: real value %r, reference %r" % (prof, no[1], ref[1]))
                if j.get("output", "") != out_text(ref[2]):
                    confirmed = True
                    why.append("%s: real output %r, reference %r" % (prof, j.get("output", "")[:80], out_text(ref[2])[:80]))
        elif no[0] == "err":
            if ref[0] == "ok":
                confirmed = True
                why.append("%s: real error %s, reference value" % (prof, no[1]))
            elif ref[0] == "err":
                if no[1] not in ref[1]:
                    confirmed = True
                    why.append("%s: real error %s, reference allows %s" % (prof, no[1], sorted(ref[1])))
                elif j.get("output", "") != out_text(ref[2]):
                    confirmed = True
                    why.append("%s: output before error %r vs %r" % (prof, j.get("output", "")[:80], out_text(ref[2])[:80]))
    if finding.kind == "ledger":
        # replay: the ledger of the same concrete program, both profiles
        confirmed = False
        why = []
        for prof in profiles:
            j = native.eval_one(src, release=(prof == "release"))
            if j.get("leak") not in (None, 0):
                confirmed = True
                why.append("%s: heap ledger %+d block(s)" % (prof, j["leak"]))
    if finding.kind in ("residue", "typing", "unsafe") and not confirmed:
        # native witness of an unbalanced operand stack: the real machine's stack after the real run
        j = native.eval_one(src, cmd="probe")
        r = j.get("probe")
        res["probe"] = r
        if r and (r.get("stack_len", 0) != 0 or r.get("frames_len", 1) != 1):
            confirmed = True
            why.append("real machine ends with %s stack slot(s), %s frame(s)" % (r.get("stack_len"), r.get("frames_len")))
    finding.confirmed = confirmed
    finding.native = {"why": why, "runs": res, "reference": repr(ref)[:300]}
    return confirmed
