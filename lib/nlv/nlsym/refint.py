"""Reference semantics (DESIGN.md section 4): a definitional big-step evaluator over the AST that the
REAL parser produced.  Written from README.md and the property statements only; it knows nothing
about bytecode, slots, the constant pool or the operand stack.

It runs symbolically (z3 terms in the holes, forking through the shared Ctx) and concretely (replay).
"""
import math
import re
import struct

import z3

from .core import (ANY_ERR, MAX_INT, MIN_INT, NULL, W, Heap, Unsupported, V, bv, display, fmt_float,
                   is_sym, norm_segments, snapshot, vbool, vint, zbool)

BUILTINS = ("print", "type", "bool", "float", "int", "string", "lengte")
MASK = V("mask")

TYPE_NAME = {"null": "null", "bool": "bool", "int": "int", "func": "functie", "float": "float",
             "str": "string", "arr": "array"}


class RefError(Exception):
    def __init__(self, kinds, why="", static=False):
        self.kinds = frozenset([kinds]) if isinstance(kinds, str) else frozenset(kinds)
        self.why = why
        self.static = static


class Diverged(Exception):
    pass


class BreakSig(Exception):
    pass


class ContinueSig(Exception):
    pass


class ReturnSig(Exception):
    def __init__(self, v):
        self.v = v


# ------------------------------------------------------------------ static name resolution
class Resolver:
    """Lexical scoping by binding identity.  A function body sees its own scopes and the global context only."""

    def __init__(self):
        self.contexts = [[{}]]  # list of contexts, each a list of scopes {name: binding id}
        self.next_id = 0
        self.loop_depth = [0]

    def declare(self, name):
        self.next_id += 1
        is_global = len(self.contexts) == 1
        b = (self.next_id, is_global, name)
        self.contexts[-1][-1][name] = b
        return b

    def lookup(self, name):
        for scope in reversed(self.contexts[-1]):
            if name in scope:
                return scope[name]
        if len(self.contexts) > 1:
            for scope in reversed(self.contexts[0]):
                if name in scope:
                    return scope[name]
        raise RefError("ReferenceError", "%s is not declared" % name, static=True)

    def block(self, stmts):
        self.contexts[-1].append({})
        for s in stmts:
            self.stmt(s)
        self.contexts[-1].pop()

    def stmt(self, s):
        k = s["s"]
        if k == "let":
            s["_b"] = self.declare(s["name"])
            self.expr(s["value"])
        elif k == "return":
            if len(self.contexts) == 1:
                raise RefError(ANY_ERR, "antwoord outside a function", static=True)
            self.expr(s["value"])
        elif k == "expr":
            self.expr(s["value"])
        elif k == "block":
            self.block(s["body"])
        elif k in ("break", "continue"):
            if self.loop_depth[-1] == 0:
                raise RefError(ANY_ERR, "stop/volgende outside a loop", static=True)

    def expr(self, e):
        k = e["e"]
        if k in ("int", "float", "bool", "str"):
            return
        if k == "ident":
            e["_b"] = self.lookup(e["name"])
        elif k == "infix":
            self.expr(e["left"])
            self.expr(e["right"])
        elif k == "prefix":
            self.expr(e["right"])
        elif k == "assign":
            l = e["left"]
            if l["e"] == "ident":
                l["_b"] = self.lookup(l["name"])
                self.expr(e["right"])
            elif l["e"] == "index":
                self.expr(l["left"])
                self.expr(l["index"])
                self.expr(e["right"])
            else:
                raise RefError(ANY_ERR, "assignment to a non-assignable expression", static=True)
        elif k == "if":
            self.expr(e["cond"])
            self.block(e["then"])
            if e["else"] is not None:
                self.block(e["else"])
        elif k == "while":
            self.loop_depth[-1] += 1
            self.expr(e["cond"])
            self.block(e["body"])
            self.loop_depth[-1] -= 1
        elif k == "func":
            if e["name"]:
                e["_b"] = self.declare(e["name"])
            self.contexts.append([{}])
            self.loop_depth.append(0)
            e["_params"] = [self.declare(p) for p in e["params"]]
            # the body is a block: its declarations live in a scope of their own
            self.block(e["body"])
            self.contexts.pop()
            self.loop_depth.pop()
        elif k == "call":
            c = e["callee"]
            for a in e["args"]:
                self.expr(a)
            if c["e"] == "ident" and c["name"] in BUILTINS:
                e["_builtin"] = c["name"]
            else:
                self.expr(c)
        elif k == "array":
            for v in e["values"]:
                self.expr(v)
        elif k == "index":
            self.expr(e["left"])
            self.expr(e["index"])
        else:
            raise AssertionError(k)


# ------------------------------------------------------------------ evaluator
MAXV = z3.BitVecVal(MAX_INT, W)
MINV = z3.BitVecVal(MIN_INT, W)


class Ref:
    def __init__(self, ctx, holes=None, fuel=4000, max_depth=48):
        self.ctx = ctx
        self.holes = holes or {}
        self.heap = Heap()
        self.globals = {}
        self.out = []
        self.fuel = fuel
        self.depth = 0
        self.max_depth = max_depth

    # -- entry points
    def run_program(self, ast):
        """-> ('ok', snapshot | None (masked), out) | ('err', kinds, out, static?) | ('diverged',)"""
        try:
            self._resolve(ast)
        except RefError as e:
            return ("err", e.kinds, [], e.why, True)
        return self.run_resolved(ast, {})

    def _resolve(self, ast):
        r = Resolver()
        for s in ast:
            r.stmt(s)
        return r

    def run_resolved(self, ast, frame):
        try:
            last = NULL
            for s in ast:
                last = self.stmt(s, frame)
            masked = (not ast) or ast[-1]["s"] != "expr" or has_mask(last, self.heap)
            return ("ok", None if masked else snapshot(last, self.heap), list(self.out))
        except RefError as e:
            return ("err", e.kinds, list(self.out), e.why, e.static)
        except Diverged:
            return ("diverged", "fuel", list(self.out))
        except (BreakSig, ContinueSig, ReturnSig):
            return ("err", ANY_ERR, list(self.out), "control signal escaped", True)

    def tick(self):
        self.fuel -= 1
        if self.fuel <= 0:
            raise Diverged()

    # -- statements: return the statement's value (the value a block ending here would have)
    def stmt(self, s, fr):
        self.tick()
        k = s["s"]
        if k == "expr":
            return self.expr(s["value"], fr)
        if k == "let":
            v = self.expr(s["value"], fr)
            self.bind(s["_b"], v, fr)
            return NULL
        if k == "block":
            return self.block(s["body"], fr)
        if k == "return":
            raise ReturnSig(self.expr(s["value"], fr))
        if k == "break":
            raise BreakSig()
        if k == "continue":
            raise ContinueSig()
        raise AssertionError(k)

    def block(self, stmts, fr):
        last = NULL
        for s in stmts:
            last = self.stmt(s, fr)
        return last

    def bind(self, b, v, fr):
        if b[1]:
            self.globals[b[0]] = v
        else:
            fr[b[0]] = v

    def load(self, b, fr):
        d = self.globals if b[1] else fr
        if b[0] not in d:
            # declared but not yet initialised (self-referential initialiser, declaration skipped by `volgende`):
            # the documentation fixes nothing here beyond "no crash" (DESIGN 4.3-3 / 4.3-10) -> not compared
            raise Unsupported("read of %s before its declaration was executed" % b[2])
        return d[b[0]]

    # -- expressions
    def expr(self, e, fr):
        self.tick()
        k = e["e"]
        if k == "int":
            v = int(e["v"])
            if v in self.holes:
                return vint(self.holes[v])
            if v > MAX_INT:
                raise RefError(ANY_ERR, "literal outside the integer range")
            return vint(v)
        if k == "float":
            return V("float", struct.unpack("<d", struct.pack("<Q", int(e["bits"])))[0])
        if k == "bool":
            return vbool(bool(e["v"]))
        if k == "str":
            return V("str", self.heap.alloc("str", list(e["v"])))
        if k == "ident":
            return self.load(e["_b"], fr)
        if k == "prefix":
            r = self.expr(e["right"], fr)
            return self.prefix(e["op"], r)
        if k == "infix":
            l = self.expr(e["left"], fr)
            r = self.expr(e["right"], fr)
            return self.infix(e["op"], l, r)
        if k == "assign":
            l = e["left"]
            if l["e"] == "ident":
                v = self.expr(e["right"], fr)
                self.bind(l["_b"], v, fr)
                return v
            cont = self.expr(l["left"], fr)
            idx = self.expr(l["index"], fr)
            v = self.expr(e["right"], fr)
            self.index_set(cont, idx, v)
            return v
        if k == "if":
            c = self.expr(e["cond"], fr)
            if c.kind != "bool":
                raise RefError("TypeError", "condition must be a boolean")
            if self.ctx.branch(c.p):
                return self.block(e["then"], fr)
            if e["else"] is not None:
                return self.block(e["else"], fr)
            return NULL
        if k == "while":
            while True:
                self.tick()
                c = self.expr(e["cond"], fr)
                if c.kind != "bool":
                    raise RefError("TypeError", "condition must be a boolean")
                if not self.ctx.branch(c.p):
                    break
                try:
                    self.block(e["body"], fr)
                except BreakSig:
                    break
                except ContinueSig:
                    continue
            return MASK  # the value of a loop is not fixed by the documentation (4.3-1)
        if k == "func":
            f = V("func", None, None, e)
            if e["name"]:
                self.bind(e["_b"], f, fr)
            return f
        if k == "call":
            args = [self.expr(a, fr) for a in e["args"]]
            if "_builtin" in e:
                return self.builtin(e["_builtin"], args)
            f = self.expr(e["callee"], fr)
            if f.kind != "func":
                if f.kind == "mask":
                    raise Unsupported("call of a masked value")
                raise RefError("TypeError", "not callable")
            fn = f.r
            if len(args) != len(fn["params"]):
                raise RefError(ANY_ERR, "wrong number of arguments")
            if self.depth >= self.max_depth:
                raise Diverged()
            new = {}
            for b, a in zip(fn["_params"], args):
                new[b[0]] = a
            self.depth += 1
            try:
                v = self.block(fn["body"], new)
            except ReturnSig as r:
                v = r.v
            finally:
                self.depth -= 1
            return v
        if k == "array":
            items = [self.expr(v, fr) for v in e["values"]]
            return V("arr", self.heap.alloc("arr", items))
        if k == "index":
            cont = self.expr(e["left"], fr)
            idx = self.expr(e["index"], fr)
            return self.index_get(cont, idx)
        raise AssertionError(k)

    # -- operators
    def prefix(self, op, r):
        if r.kind == "mask":
            raise Unsupported("operator on a masked value")
        if op == "Not":
            if r.kind != "bool":
                raise RefError("TypeError", "! needs a boolean")
            return vbool(z3.Not(r.p) if is_sym(r.p) else (not r.p))
        # unary minus
        if r.kind == "float":
            return V("float", -r.p)
        if r.kind == "int":
            if is_sym(r.p):
                if self.ctx.branch(r.p == MINV):
                    raise RefError(ANY_ERR, "result outside the integer range")
                return vint(-r.p)
            if -r.p > MAX_INT:
                raise RefError(ANY_ERR, "result outside the integer range")
            return vint(-r.p)
        raise RefError("TypeError", "unary minus needs a number")

    def infix(self, op, l, r):
        if l.kind == "mask" or r.kind == "mask":
            raise Unsupported("operator on a masked value")
        if op in ("And", "Or"):
            if l.kind != "bool" or r.kind != "bool":
                raise RefError("TypeError", "&& || need booleans")
            if is_sym(l.p) or is_sym(r.p):
                return vbool((z3.And if op == "And" else z3.Or)(zbool(l.p), zbool(r.p)))
            return vbool((l.p and r.p) if op == "And" else (l.p or r.p))
        if l.kind != r.kind:
            raise RefError("TypeError", "operands of different type")
        k = l.kind
        if op in ("Add", "Subtract", "Multiply", "Divide", "Modulo"):
            if k == "int":
                return self.int_arith(op, l.p, r.p)
            if k == "float":
                return V("float", ieee(op, l.p, r.p))
            raise RefError("TypeError", "arithmetic needs numbers")
        if op in ("Lt", "Lte", "Gt", "Gte", "Eq", "Neq"):
            if k in ("arr",) or (k == "func" and op not in ("Eq", "Neq")):
                raise RefError(ANY_ERR, "unsupported comparison")
            if k == "func":
                raise Unsupported("equality of functions")
            if k == "null":
                raise Unsupported("comparison of null")
            if k == "int":
                a, b = l.p, r.p
                if is_sym(a) or is_sym(b):
                    a, b = bv(a), bv(b)
            elif k == "bool":
                if op not in ("Eq", "Neq"):
                    raise Unsupported("order of booleans")
                if is_sym(l.p) or is_sym(r.p):
                    eq = zbool(l.p) == zbool(r.p)
                    return vbool(eq if op == "Eq" else z3.Not(eq))
                a, b = bool(l.p), bool(r.p)
            elif k == "float":
                a, b = l.p, r.p
            else:
                # lexicographic by character
                a = [ord(c) for c in self.heap.get(l.p)]
                b = [ord(c) for c in self.heap.get(r.p)]
            return vbool({"Lt": a < b, "Lte": a <= b, "Gt": a > b, "Gte": a >= b, "Eq": a == b, "Neq": a != b}[op])
        raise RefError(ANY_ERR, "unknown operator " + op)

    def int_arith(self, op, a, b):
        """exact on the 61-bit signed range; division truncates toward zero; anything else is an error"""
        if not is_sym(a) and not is_sym(b):
            if op in ("Divide", "Modulo"):
                if b == 0:
                    raise RefError(ANY_ERR, "zero divisor")
                q = abs(a) // abs(b)
                if (a < 0) != (b < 0):
                    q = -q
                r = q if op == "Divide" else a - q * b
            else:
                r = {"Add": a + b, "Subtract": a - b, "Multiply": a * b}[op]
            if r > MAX_INT or r < MIN_INT:
                raise RefError(ANY_ERR, "result outside the integer range")
            return vint(r)
        if op in ("Divide", "Modulo"):
            # quotient and remainder of 61-bit operands fit 64 bits: bvsdiv / bvsrem (truncation toward zero)
            if self.ctx.branch(bv(b) == 0):
                raise RefError(ANY_ERR, "zero divisor")
            r64 = (bv(a) / bv(b)) if op == "Divide" else z3.SRem(bv(a), bv(b))
            if self.ctx.branch(z3.Or(r64 > MAXV, r64 < MINV)):
                raise RefError(ANY_ERR, "result outside the integer range")
            return vint(r64)
        # symbolic: compute in 128 bits, where nothing can wrap
        x, y = z3.SignExt(W, bv(a)), z3.SignExt(W, bv(b))
        r = {"Add": x + y, "Subtract": x - y, "Multiply": x * y}[op]
        hi, lo = z3.BitVecVal(MAX_INT, 2 * W), z3.BitVecVal(MIN_INT, 2 * W)
        if self.ctx.branch(z3.Or(r > hi, r < lo)):
            raise RefError(ANY_ERR, "result outside the integer range")
        return vint(z3.Extract(W - 1, 0, r))

    # -- sequences
    def position(self, idx, n):
        if idx.kind == "mask":
            raise Unsupported("masked index")
        if idx.kind != "int":
            raise RefError("TypeError", "index must be an integer")
        i = idx.p
        if not is_sym(i):
            j = i + n if i < 0 else i
            if 0 <= j < n:
                return j
            raise RefError("IndexError", "index outside the sequence")
        for k in range(n):
            if self.ctx.branch(i == z3.BitVecVal(k, W)):
                return k
        for k in range(1, n + 1):
            if self.ctx.branch(i == z3.BitVecVal(-k, W)):
                return n - k
        raise RefError("IndexError", "index outside the sequence")

    def index_get(self, cont, idx):
        if cont.kind == "arr":
            # index type is checked before the container type in neither document; both are TypeErrors
            items = self.heap.get(cont.p)
            return items[self.position(idx, len(items))]
        if cont.kind == "str":
            chars = self.heap.get(cont.p)
            return V("str", self.heap.alloc("str", [chars[self.position(idx, len(chars))]]))
        if cont.kind == "mask":
            raise Unsupported("masked container")
        raise RefError("TypeError", "only lists and text can be indexed")

    def index_set(self, cont, idx, v):
        if cont.kind == "arr":
            items = self.heap.get(cont.p)
            items[self.position(idx, len(items))] = v
            return
        if cont.kind == "str":
            chars = self.heap.get(cont.p)
            j = self.position(idx, len(chars))
            if v.kind != "str":
                raise RefError("TypeError", "only text can be stored into text")
            chars[j:j + 1] = list(self.heap.get(v.p))
            return
        if cont.kind == "mask":
            raise Unsupported("masked container")
        if idx.kind != "int":
            raise RefError("TypeError", "index must be an integer")
        raise RefError("TypeError", "only lists and text can be indexed")

    # -- builtins (README + C14 statement)
    def builtin(self, name, args):
        heap = self.heap
        if any(a.kind == "mask" for a in args):
            raise Unsupported("builtin on a masked value")
        if name == "print":
            # placeholders of the FIRST argument are replaced, left to right, by the remaining arguments
            if args:
                segs = norm_segments(display(args[0], heap))
                rest = [display(a, heap) for a in args[1:]]
                out = []
                for s in segs:
                    if isinstance(s, str):
                        while rest:
                            p = s.find("{}")
                            if p < 0:
                                break
                            out.append(s[:p])
                            out += rest.pop(0)
                            s = s[p + 2:]
                        out.append(s)
                    else:
                        out.append(s)
                self.out += norm_segments(out)
            self.out.append("\n")
            return NULL
        if len(args) != 1:
            raise RefError("ArgumentError", "%s takes exactly one argument" % name)
        a = args[0]
        k = a.kind
        if name == "type":
            return V("str", heap.alloc("str", list(TYPE_NAME[k])))
        if name == "lengte":
            if k in ("str", "arr"):
                return vint(len(heap.get(a.p)))
            raise RefError(("TypeError", "ArgumentError"), "lengte needs text or a list")
        if name == "bool":
            if k == "bool":
                return a
            if k == "null":
                return vbool(False)
            if k == "int":
                return vbool(bv(a.p) > 0 if is_sym(a.p) else a.p > 0)
            if k == "float":
                return vbool(a.p > 0.0)
            if k in ("str", "arr"):
                return vbool(len(heap.get(a.p)) > 0)
            raise RefError(("ArgumentError", "TypeError"), "bool of a function")
        if name == "int":
            if k == "int":
                return a
            if k == "null":
                return vint(0)
            if k == "bool":
                if is_sym(a.p):
                    return vint(z3.If(a.p, z3.BitVecVal(1, W), z3.BitVecVal(0, W)))
                return vint(1 if a.p else 0)
            if k == "float":
                f = a.p
                if f != f or math.isinf(f) or abs(f) >= 2.0 ** 60:
                    raise Unsupported("int() of a float outside the integer range (4.3-11)")
                return vint(int(f))
            if k == "str":
                t = "".join(heap.get(a.p)).strip()
                if re.match(r"^-?[0-9]+$", t):
                    v = int(t)
                    if v > MAX_INT or v < MIN_INT:
                        raise RefError(("ArgumentError", "TypeError"), "number text outside the integer range")
                    return vint(v)
                if re.match(r"^[+-]?[0-9.eE_+-]+$|^[+-]?(inf|infinity|nan)$", t, re.I):
                    raise Unsupported("exotic number spelling (4.3-11)")
                raise RefError(("ArgumentError", "TypeError"), "text is not a number")
            raise RefError(("ArgumentError", "TypeError"), "int of %s" % k)
        if name == "float":
            if k == "float":
                return a
            if k == "null":
                return V("float", 0.0)
            if k == "bool":
                if is_sym(a.p):
                    raise Unsupported("float() of a symbolic bool")
                return V("float", 1.0 if a.p else 0.0)
            if k == "int":
                if is_sym(a.p):
                    raise Unsupported("float() of a symbolic int")
                return V("float", float(a.p))
            if k == "str":
                t = "".join(heap.get(a.p)).strip()
                if re.match(r"^-?[0-9]+(\.[0-9]+)?$", t):
                    return V("float", float(t))
                if re.match(r"^[+-]?[0-9.eE_+-]+$|^[+-]?(inf|infinity|nan)$", t, re.I):
                    raise Unsupported("exotic number spelling (4.3-11)")
                raise RefError(("ArgumentError", "TypeError"), "text is not a number")
            raise RefError(("ArgumentError", "TypeError"), "float of %s" % k)
        if name == "string":
            if k == "str":
                return a
            if k == "null":
                return V("str", heap.alloc("str", []))
            if k == "int":
                if is_sym(a.p):
                    raise Unsupported("string() of a symbolic int")
                return V("str", heap.alloc("str", list(str(a.p))))
            if k == "float":
                return V("str", heap.alloc("str", list(fmt_float(a.p))))
            if k == "bool":
                raise Unsupported("string() of a boolean: spelling not fixed by the README")
            raise RefError(("ArgumentError", "TypeError"), "string of %s" % k)
        raise AssertionError(name)


def has_mask(v, heap, depth=0):
    if v.kind == "mask":
        return True
    if v.kind == "arr" and depth < 6:
        return any(has_mask(x, heap, depth + 1) for x in heap.get(v.p))
    return False


def ieee(op, a, b):
    try:
        if op == "Add":
            return a + b
        if op == "Subtract":
            return a - b
        if op == "Multiply":
            return a * b
        if op == "Divide":
            if b == 0.0:
                if a != a or a == 0.0:
                    return float("nan")
                neg = (math.copysign(1.0, a) < 0) != (math.copysign(1.0, b) < 0)
                return float("-inf") if neg else float("inf")
            return a / b
        if b == 0.0 or math.isinf(a) or a != a or b != b:
            return float("nan")
        return math.fmod(a, b)
    except OverflowError:
        raise Unsupported("python float overflow trap")
