"""./check <property> [--tier quick|thorough]   (also: VERIF_TIER, VERIF_SEED)

exit 0: property held on everything explored (KNOWN-FINDING lines allowed)
exit 1: a reproduced violation that known_findings.txt does not list; line "VIOLATION property=<id> replay=<path>"
exit 2: inconclusive (overlay does not build, a counterexample that does not reproduce, vacuous harness)
"""
import argparse
import os
import sys

sys.path.insert(0, os.path.dirname(os.path.dirname(os.path.abspath(__file__))))

from nlv import overlay as ov  # noqa: E402


def main():
    ap = argparse.ArgumentParser()
    ap.add_argument("prop")
    ap.add_argument("--tier", default=os.environ.get("VERIF_TIER") or "quick")
    a = ap.parse_args()
    seed = int(os.environ.get("VERIF_SEED", "0") or 0)
    from nlv import props
    fn = props.PROPS.get(a.prop)
    if fn is None:
        print("unknown or not-applicable property", a.prop)
        return 2
    try:
        return fn(a.tier, seed)
    except ov.BuildError as e:
        print("INCONCLUSIVE property=%s overlay of /repo does not build: %s" % (a.prop, str(e)[-800:]))
        return 2


if __name__ == "__main__":
    sys.exit(main())
