"""./check <property> [--tier quick|thorough]   (also: VERIF_TIER, VERIF_SEED)

exit 0: property held on everything explored (KNOWN-FINDING lines allowed)
exit 1: a reproduced violation that known_findings.txt does not list; line "VIOLATION property=<id> replay=<path>"
exit 2: inconclusive (overlay does not build, a counterexample that does not reproduce, vacuous harness)
"""
import argparse
import os
import sys

sys.path.insert(0, os.path.dirname(os.path.dirname(os.path.abspath(__file__))))

from nlv import overlay as ov  # noqa: E402


def replay(prop, path):
    """Re-run a recorded counterexample against the real interpreter built from /repo's current tree."""
    import re
    text = open(path).read()
    m = re.search(r"### PROGRAM\n(.*?)\n### (VARIANT|NATIVE|EXPECT)", text, re.S)
    if not m:
        print(text)
        print("(this replay file holds a Kani concrete-playback test; run the property check to regenerate and execute it)")
        return 0
    from nlv.nlsym import driver
    nat = driver.Native()
    if "### EXPECT SyntaxError" in text:
        try:
            src = re.search(r"### PROGRAM\n(.*?)\n### EXPECT", text, re.S).group(1)
            j = nat.eval_one(src)
            kind = ((j.get("result") or {}).get("error") or {}).get("kind")
            ok = kind != "SyntaxError" or bool(j.get("output"))
            print("program:", src)
            print("native:", j)
            print("REPRODUCED" if ok else "not reproduced on the current tree")
            return 1 if ok else 0
        finally:
            nat.close()
    try:
        f = driver.Finding("replay", "", m.group(1), "")
        mv = re.search(r"### VARIANT\n(.*?)\n### NATIVE", text, re.S)
        if mv:
            f.variant_source = mv.group(1)
            ok = driver.confirm_pair(nat, f)
        else:
            ok = driver.confirm(nat, f)
        print("program:", f.source)
        print("native:", f.native)
        print("REPRODUCED" if ok else "not reproduced on the current tree")
        return 1 if ok else 0
    finally:
        nat.close()


def main():
    ap = argparse.ArgumentParser()
    ap.add_argument("prop")
    ap.add_argument("--tier", default=os.environ.get("VERIF_TIER") or "quick")
    ap.add_argument("--replay", default=None, help="replay file written by an earlier run")
    a = ap.parse_args()
    if a.replay:
        return replay(a.prop, a.replay)
    seed = int(os.environ.get("VERIF_SEED", "0") or 0)
    from nlv import props
    fn = props.PROPS.get(a.prop)
    if fn is None:
        print("unknown or not-applicable property", a.prop)
        return 2
    try:
        return fn(a.tier, seed)
    except ov.BuildError as e:
        print("INCONCLUSIVE property=%s overlay of /repo does not build: %s" % (a.prop, str(e)[-800:]))
        return 2


if __name__ == "__main__":
    sys.exit(main())
