"""Per-property checks: which engines decide which property (DESIGN.md section 5)."""
import os
import time

from .kcheck import check_k, k_coverage
from .report import Report

S_TRUSTED = ["z3 (in-process, one solver, push/pop)", "nl-dump: the real parser and compiler of the current tree, run natively",
             "lib/nlv/nlsym/vmexec.py (machine specification, tied to the real VM::run by the Kani opcode contracts)",
             "lib/nlv/nlsym/refint.py (reference semantics, DESIGN.md section 4)", "native replay of every candidate (dev + release)"]
S_ASSUME = ["holes are non-negative 61-bit literals (negative operands are written 0 - hole)",
            "bounds: <= 300 executed instructions per path, call depth <= 48, <= 128 paths and <= 8 equality patterns per skeleton, 10 s per solver query",
            "strings and floats are concrete; symbolic data are integers, booleans and indices",
            "excluded / unspecified behaviours: DESIGN.md 4.3"]


def s_options(tier):
    if tier == "thorough":
        return dict(max_steps=600, max_paths=512, pattern_limit=24, solver_timeout_ms=20000, skeleton_budget_s=120)
    return dict(max_steps=300, max_paths=128, pattern_limit=8, solver_timeout_ms=10000, skeleton_budget_s=30)


def cross_check(xdir, limit, seed):
    """Second opinion on a sample of the z3 queries of this run: cvc5 and the system z3 4.8.12 on the SMT-LIB2 dumps.
    A disagreement (sat vs unsat) is a machinery failure (exit 2), never a pass and never a violation."""
    import random
    import subprocess
    from concurrent.futures import ThreadPoolExecutor
    files = sorted(f for f in os.listdir(xdir) if f.endswith(".smt2"))
    random.Random(seed).shuffle(files)
    files = files[:limit]
    solvers = [("cvc5", ["cvc5", "--lang", "smt2", "--tlimit=10000"]), ("z3-4.8.12", ["/usr/bin/z3", "-T:10"])]

    def one(fn):
        path = os.path.join(xdir, fn)
        exp = open(path).readline().split(":")[-1].strip()
        out = {}
        for name, cmd in solvers:
            try:
                p = subprocess.run(cmd + [path], capture_output=True, text=True, timeout=20)
                text = p.stdout.strip().split("\n")
                if any("(error" in l for l in text) or not text:
                    out[name] = "error"
                else:
                    out[name] = text[0].strip()
            except Exception:
                out[name] = "timeout"
        return fn, exp, out

    res = {"queries_sampled": len(files), "solvers": [n for n, _ in solvers], "agree": 0, "disagree": 0, "no_second_verdict": 0, "disagreements": []}
    with ThreadPoolExecutor(8) as ex:
        for fn, exp, out in ex.map(one, files):
            verdicts = [v for v in out.values() if v in ("sat", "unsat")]
            if not verdicts:
                res["no_second_verdict"] += 1
            elif all(v == exp for v in verdicts):
                res["agree"] += 1
            else:
                res["disagree"] += 1
                res["disagreements"].append({"file": fn, "z3": exp, "others": out})
    return res


def mixed_history(rep, results, seed, limit):
    """History independence on solver-generated witnesses (a facet of C16, not claimed): a seeded shuffle of witnesses of DIFFERENT
    skeletons is evaluated in one process, one after the other (dev build, then release build in another order); every outcome
    must equal the outcome the same program had when its skeleton was explored.  A confirmed difference - the program alone in
    a fresh process agrees with the recorded outcome, the program inside the batch does not, twice - is a violation."""
    import random
    from .nlsym import driver
    pool = []
    for r in results:
        for src, out in r.get("witness_sample", []) or []:
            pool.append((r["name"], src, out))
    rng = random.Random(seed * 7919 + 13)
    rng.shuffle(pool)
    pool = pool[:limit]
    res = {"programs_in_mixed_batches": len(pool), "differences": 0, "confirmed": 0}
    if len(pool) < 2:
        return res
    nat = driver.Native()
    try:
        nat.eval_one("1", release=True)
        def norm(j):
            o = driver.native_outcome(j)
            return (o[0], o[1] if o[0] in ("ok", "err") else None, j.get("output", ""))

        # three orders: fully shuffled; clustered by skeleton family (programs about the same feature - e.g. indexing ASCII and
        # non-ASCII text - become neighbours, shuffled inside the family); and the two halves swapped and reversed, release build
        fam = {}
        for item in pool:
            fam.setdefault(":".join(item[0].split(":")[:2]), []).append(item)
        clustered = []
        for key in sorted(fam):
            grp = list(fam[key])
            rng.shuffle(grp)
            clustered += grp
        orders = [("dev", pool), ("dev", clustered), ("release", list(reversed(pool[len(pool) // 2:])) + pool[:len(pool) // 2])]
        for prof, order in orders:
            for k in range(0, len(order), 400):
                chunk = order[k:k + 400]
                try:
                    outs = nat._batch(nat.bin if prof == "dev" else nat.bin_release, "eval", [c[1] for c in chunk], timeout=120)
                except Exception:
                    continue  # a crashing program is attributed by the per-skeleton validation, not here
                for idx, ((name, src, rec), j) in enumerate(zip(chunk, outs)):
                    if norm(j) == norm(rec):
                        continue
                    res["differences"] += 1
                    alone = nat.eval_one(src, release=(prof == "release"))
                    if norm(alone) != norm(rec):
                        continue  # not a matter of history (profile difference or nondeterminism is reported by the per-path comparison)
                    try:
                        again = nat._batch(nat.bin if prof == "dev" else nat.bin_release, "eval", [c[1] for c in chunk[:idx + 1]], timeout=120)[-1]
                    except Exception:
                        continue
                    if norm(again) == norm(j):
                        res["confirmed"] += 1
                        body = "# evaluations in ONE process, in this order (%s build); the LAST one differs from its evaluation in a fresh process\n" % prof
                        body += "### HISTORY\n" + "\n\x01\n".join(c[1] for c in chunk[:idx + 1]) + "\n### ALONE\n%r\n### AFTER THE HISTORY\n%r\n" % (rec, {"result": j.get("result"), "output": j.get("output", "")})
                        rep.violation("history:" + name, "%s: the outcome depends on what was evaluated before in the same process (%s build): alone %s, after %d other evaluations %s" % (
                            name, prof, str(rec)[:120], idx, str({"result": j.get("result"), "output": j.get("output", "")})[:120]), body)
                        if res["confirmed"] >= 5:
                            return res
    finally:
        nat.close()
    return res


def run_s(rep, items, tier, kinds=None, wall_budget_s=None):
    """Run skeletons through nlsym; confirmed candidates become violations (key = skeleton name + kind)."""
    import shutil
    import tempfile
    from .nlsym import run
    deadline = time.time() + wall_budget_s if wall_budget_s else None
    xdir = tempfile.mkdtemp(prefix="nlv-xcheck-")
    os.environ["NLV_XCHECK_DIR"] = xdir
    from .nlsym import core
    core.XCHECK_DIR = xdir
    try:
        results, agg, info = run.run_families(items, s_options(tier), deadline=deadline)
        xc = cross_check(xdir, 60 if tier == "quick" else 400, rep.seed)
    finally:
        shutil.rmtree(xdir, ignore_errors=True)
        os.environ.pop("NLV_XCHECK_DIR", None)
    mh = mixed_history(rep, results, rep.seed, 1200 if tier == "quick" else 6000) if (kinds is None or "witness" in kinds) else None
    if xc["disagree"]:
        rep.unreproduced("second-solver cross-check disagrees with z3 on %d sampled queries: %r" % (xc["disagree"], xc["disagreements"][:2]))
    replayed = 0
    samples = []
    for r in results:
        if r.get("error"):
            rep.unreproduced("nlsym failed on skeleton %s: %s" % (r["name"], r["error"][-300:]))
            continue
        # heap-ledger findings belong to C03/C04 only (kinds lists them explicitly there)
        fs = [f for f in r["findings"] if (kinds is None and f["kind"] != "ledger") or (kinds is not None and f["kind"] in kinds)]
        replayed += len(fs)
        conf = [f for f in fs if f["confirmed"]]
        for f in conf:
            text = "%s: %s | %s" % (r["name"], f["detail"], "; ".join((f["native"] or {}).get("why", [])[:3]))
            skel_txt = " || ".join(r["skel"]) if isinstance(r["skel"], list) else r["skel"]
            body = "# skeleton: %s\n# replay: ./check %s --replay <this file>\n" % (skel_txt.replace("\n", " "), rep.prop)
            if f["kind"] == "session":
                body += "### SESSION (one line per retained evaluation)\n%s\n" % f["source"].replace("\x01", "\n")
            elif f.get("variant_source"):
                body += "### PROGRAM\n%s\n### VARIANT\n%s\n" % (f["source"], f["variant_source"])
            else:
                body += "### PROGRAM\n%s\n" % f["source"]
            body += "### NATIVE\n%r\n" % (f["native"],)
            key = "skel=%s:%s" % (r["name"], f["kind"])
            if f.get("role", "").startswith("session:"):
                key = f["role"]
            rep.violation(key, text, body)
        if fs and not conf:
            f = fs[0]
            rep.unreproduced("candidate on %s (%s: %s; program %r) did not reproduce against the real interpreter" % (
                r["name"], f["kind"], f["detail"][:200], f["source"][:200]))
        if len(samples) < 8 and r.get("samples"):
            s = dict(r["samples"][0])
            s["name"] = r["name"]
            s["verdict"] = "violation" if conf else "holds on all explored paths"
            s["paths"] = r["stats"].get("vm_paths")
            samples.append(s)
    cov = {
        "programs": int(agg.get("programs", 0)),
        "disagreements_checked": replayed,
        "samples": samples or [{"note": "no skeleton completed"}],
        "skeletons": agg.get("skeletons_done"),
        "skeletons_requested": agg.get("skeletons_requested"),
        "machine_paths": agg.get("vm_paths"),
        "path_pairs_compared": agg.get("compared"),
        "not_compared_masked_or_unsupported": agg.get("not_compared", 0) + agg.get("unsupported", 0),
        "paths_beyond_step_bound": agg.get("diverged"),
        "undecided_queries": agg.get("undecided"),
        "typing_queries": agg.get("typing_queries"),
        "path_witnesses_run_on_the_real_interpreter": agg.get("witnesses"),
        "heap_ledger_audits": agg.get("ledger_audits"),
        "witnesses_compared_dev_vs_release_and_reversed_history": agg.get("profile_history_pairs"),
        "solver_queries": agg.get("queries"),
        "second_solver_cross_check": xc,
        "mixed_history_batches": mh,
        "solver_s": round(agg.get("solver_s", 0.0), 1),
        "skeletons_truncated_by_budget": agg.get("truncated"),
        "skeletons_rejected_by_parser": agg.get("parse_errors", 0),
        "functions_encoded": ["compiler.rs: compile_ast/compile_statement/compile_expression (executed natively, output taken verbatim)",
                              "vm.rs: VM::run dispatch loop (as specified in nlsym/vmexec.py, one arm per opcode)",
                              "builtins.rs: call_* (as specified in nlsym/vmexec.py)"],
        "bounds": s_options(tier),
        "engine_info": info,
        "trusted_base": S_TRUSTED,
    }
    return cov, agg


def fams(*names, **kw):
    from .nlsym import skeletons as sk
    items = []
    for n in names:
        items += getattr(sk, "fam_" + n)()
    return items


def op_forms_light():
    """the variable/literal placements of the comparison and + - operators (cheap for the solver); * / % forms are in C06 / C10"""
    from .nlsym import skeletons as sk
    keep = ("lit-local", "local-lit", "lit-global", "global-lit", "local-local", "neglocal-lit", "lit-neglocal")
    cheap = ("add", "sub", "lt", "lte", "gt", "gte", "eq", "neq")
    out = [x for x in sk.fam_operator_forms() if len(x[0].split(":")) == 3 and x[0].split(":")[1] in keep and x[0].split(":")[2] in cheap]
    # division and remainder of a (negated) local by a literal and the other way round: 8 skeletons, about 40 s
    out += [x for x in sk.fam_operator_forms() if len(x[0].split(":")) == 3 and x[0].split(":")[1] in ("lit-local", "local-lit", "neglocal-lit", "lit-neglocal")
            and x[0].split(":")[2] in ("div", "rem")]
    return out


def rnd(seed, n):
    from .nlsym import skeletons as sk
    return sk.fam_random(seed, n)


def exh(n):
    from .nlsym import skeletons as sk
    return sk.fam_exhaustive(n)


def loops(n):
    from .nlsym import skeletons as sk
    return sk.fam_loop_bodies(n)


def merge_cov(rep, scov, ksum=None):
    rep.coverage = scov
    if ksum is not None:
        kc = k_coverage(ksum)
        rep.coverage["kani"] = kc
        rep.coverage["evaluations"] = kc["evaluations"] + scov["programs"]
        rep.coverage["distinct_nontrivial"] = kc["distinct_nontrivial"] + (scov.get("path_pairs_compared") or 0)
        rep.coverage["rule"] = kc["rule"] + "; plus nlsym: one evaluation per compiled program, non-trivial = a compared (machine path, reference path) pair"
        rep.coverage["solver_s"] = round(scov["solver_s"] + kc["solver_s"], 1)


def s_property(prop, level, quick_items, thorough_items, k=False, kinds=None, extra_assume=None, front_end=False):
    def runner(tier, seed):
        rep = Report(prop, tier, seed, level)
        items = quick_items(seed) if tier == "quick" else thorough_items(seed)
        scov, _ = run_s(rep, items, tier, kinds=kinds)
        if front_end:
            scov["front_end_regressions"] = front_end_regressions(rep)
        ksum = check_k(prop, tier, rep) if k else None
        merge_cov(rep, scov, ksum)
        rep.assumptions = S_ASSUME + (extra_assume or [])
        return rep.finish()
    return runner


def run_C15(tier, seed):
    rep = Report("C15", tier, seed, "model_checking")
    # values whose content changed after they were created (text modified in place), compared through whole programs:
    # the Kani harnesses build fresh values only
    items = [x for x in fams("sequences", "boundary", "builtins") if any(k in x[0] for k in (
        "str-eq", "nan-same-object", "stored-types", "str-literal", "fn-eq", "str-alias", "str-set-multi", "float-text-17",
        "signed-zero", "close-float", "negative-literals"))]
    scov, _ = run_s(rep, items, tier)
    s = check_k("C15", tier, rep)
    merge_cov(rep, scov, s)
    rep.assumptions = ["CBMC's model of Rust integer, pointer-to-integer and float bit casts",
                       "values modified after creation (text changed in place) are compared through %d whole programs (nlsym + native witness), not by Kani" % len(items),
                       "strings from an 8-entry literal table, arrays <= 3 elements (bound)",
                       "random UTF-8 / nested arrays beyond the bound are outside the claim"]
    return rep.finish()


def run_C08(tier, seed):
    rep = Report("C08", tier, seed, "model_checking")
    s = check_k("C08", tier, rep)
    rep.coverage = k_coverage(s)
    rep.assumptions = [
        "the first character of the token under test (and, after white space / a comment, of what follows) is enumerated concretely; "
        "the bytes after it are symbolic ASCII (0..=2/3/4 of them, every length), one symbolic byte precedes the token",
        "non-ASCII text: a 16-character table (letters, non-letters, the five non-ASCII white-space characters, a 4-byte code point); "
        "char::is_alphabetic / is_alphanumeric are modelled on that table (the Unicode tables of core are trusted)",
        "string literal decoding: raw bodies of <= 3 (thorough: 4) characters over { backslash, quote, n, t, a, space } plus five longer concrete starts",
        "whole texts longer than one token: 11 concrete shapes with symbolic letters/digits; position independence of Tokenizer::next is "
        "checked by starting every single-token harness after one arbitrary consumed byte",
        "outside the claim: symbolic non-ASCII bytes, texts longer than the stated bounds, number VALUES (str::parse) and the parser's use of the tokens (C07)",
    ]
    return rep.finish()


def pairs(pred=None):
    from .nlsym import skeletons as sk
    return [x for x in sk.fam_pairs() if pred is None or pred(x[0])]


def sessions(n, seed=0, rnd_n=0, rnd_len=5):
    from .nlsym import skeletons as sk
    return sk.fam_sessions_directed() + sk.fam_sessions(n) + (sk.fam_sessions_random(seed, rnd_n, rnd_len) if rnd_n else [])


FRONT_END_REJECTS = [
    # texts the front end must reject as a whole, with a SyntaxError and before any output.  These are NOT decided by a solver
    # (the parser cannot be executed symbolically, DESIGN.md 1): directed native regressions of repaired front-end defects,
    # reported separately in the evidence.
    ("fe:illegal-char-mid", 'print(1) @ print(2)'), ("fe:lone-ampersand", 'print(1); 5 & 3'), ("fe:lone-pipe", 'print(1); ja | nee'),
    ("fe:illegal-char-last", 'print(1); 1 #'), ("fe:illegal-nonascii", 'print(1); 1 € 2'), ("fe:illegal-first", '@ print(1)'),
    ("fe:unterminated-string", 'print(1); 5 "abc'), ("fe:unterminated-string-escaped-quote", 'print(1); "abc\\"'),
    ("fe:unterminated-string-in-call", 'print(1); print("abc)'), ("fe:illegal-in-block", 'print(1); als ja { 1 @ }'),
    ("fe:illegal-in-fn", 'print(1); functie f() { 1 ? 2 }'), ("fe:huge-int-literal", 'print(1); 99999999999999999999'),
    ("fe:bad-parameter-list", 'print(1); functie ('), ("fe:bad-parameter-list-2", 'print(1); functie f(1) { }'),
    ("fe:unclosed-block", 'print(1); als ja { 1'), ("fe:unclosed-paren", 'print(1); (1 + 2'), ("fe:unclosed-bracket", 'print(1); [1, 2'),
    ("fe:return-outside-function", 'print(1); antwoord 1'),
]


def limit_programs():
    """programs beyond the 16-bit / 8-bit limits of the bytecode format: the outcome must be a value or an error of a documented kind,
    never a panic, an abort or a hang, and nothing may be left allocated (native, not solver-decided; DESIGN.md 4.3-6, 5 C05)"""
    stmts = "1;" * 17000  # 68 000 bytes of straight-line code
    return [
        ("limit:jump-beyond-64k", stmts + "als ja { 1 }"),
        ("limit:loop-beyond-64k", stmts + "stel i = 0; zolang i < 2 { i += 1 }; i"),
        ("limit:function-beyond-64k", stmts + "functie f() { 2 }; f()"),
        ("limit:straight-line-beyond-64k", "1;" * 20000 + "7"),
        ("limit:int-constants-beyond-64k", ";".join(str(i) for i in range(70000))),
        ("limit:float-constants-beyond-64k", ";".join("%d.5" % i for i in range(70000))),
        ("limit:text-constants-beyond-64k", ";".join('"t%d"' % i for i in range(70000))),
        ("limit:array-literal-beyond-64k", "[" + ",".join("0" for _ in range(70000)) + "]"),
        ("limit:globals-beyond-64k", ";".join("stel v%d = 0" % i for i in range(66000))),
        ("limit:locals-beyond-64k", "functie f() { " + ";".join("stel v%d = 0" % i for i in range(66000)) + "; 1 }; f()"),
        ("limit:arguments-beyond-255", "functie f() { 1 }; f(" + ",".join("0" for _ in range(300)) + ")"),
        ("limit:builtin-arguments-beyond-255", "print(" + ",".join("0" for _ in range(300)) + ")"),
        ("limit:parameters-beyond-255", "functie f(" + ",".join("p%d" % i for i in range(300)) + ") { 1 }; 2"),
        ("limit:deep-nesting", "stel a = 0; " + "als ja { " * 200 + "a = 1" + " }" * 200 + "; a"),
        ("limit:deep-parentheses", "(" * 300 + "1" + ")" * 300),
        ("limit:deep-array-nesting", "[" * 300 + "1" + "]" * 300),
        # recursion beyond the 16-bit base pointer of a call frame, and recursion that never ends
        ("limit:recursion-40000", "functie d(n) { als n == 0 { antwoord 0 }; 1 + d(n - 1) }; [d(1000), d(40000)]"),
        ("limit:recursion-without-end", "functie o(n) { o(n + 1) }; o(0)"),
        ("limit:mutual-recursion-without-end", "stel b = 0; functie a(n) { b(n + 1) }; b = functie(n) { stel t = [n]; a(n) }; a(0)"),
        # nesting beyond what the native stack of the recursive parser / compiler / drop glue takes (known findings, DESIGN.md 6)
        ("limit:native-stack:parentheses-100k", "(" * 100000 + "1" + ")" * 100000),
        ("limit:native-stack:operator-chain-100k", "1" + "+1" * 100000),
        ("limit:native-stack:blocks-20k", "als ja { " * 20000 + "1" + " }" * 20000),
        # run-time data nested deeper than the native stack takes: the recursive mark phase, print and the hand-over of the result
        ("limit:native-stack:data-100k-collect", "functie noop() { 0 }; stel a = []; stel i = 0; zolang i < 100000 { a = [a]; i += 1 }; noop(); lengte(a)"),
        ("limit:native-stack:data-100k-print", "stel a = []; stel i = 0; zolang i < 100000 { a = [a]; i += 1 }; print(a); 1"),
        ("limit:native-stack:data-100k-result", "stel a = []; stel i = 0; zolang i < 100000 { a = [a]; i += 1 }; a"),
        # a list that contains itself: printing it must end (what it prints is not specified, a crash is excluded)
        ("limit:print-self-containing-list", "stel a = [1, 0]; a[1] = a; print(a); print(\"{} {}\", [a], 2); lengte(a)"),
        ("limit:print-mutually-containing-lists", "stel a = [1]; stel b = [a, 2]; a[0] = b; print(b); print(a); 7"),
        # ... and data that is merely large, not deep, is fine
        ("limit:wide-data-100k", "stel a = []; stel i = 0; zolang i < 300 { a = [a, i, 0.5, \"s\"]; i += 1 }; lengte(a)"),
    ]


def front_end_regressions(rep):
    """native, not solver-decided: every text of FRONT_END_REJECTS must come back as SyntaxError with no output (dev and release)"""
    from .nlsym import driver
    nat = driver.Native()
    res = {"texts": len(FRONT_END_REJECTS), "rejected_with_syntax_error_and_no_output": 0, "note": "directed native regressions, not decided by a solver"}
    try:
        for name, src in FRONT_END_REJECTS:
            bad = None
            for prof in ("dev", "release"):
                j = nat.eval_one(src, release=(prof == "release"))
                r = j.get("result", {})
                kind = (r.get("error") or {}).get("kind")
                if kind != "SyntaxError" or j.get("output", ""):
                    bad = "%s: %s, output %r" % (prof, ("error kind %s" % kind) if kind else str(r)[:120], j.get("output", "")[:40])
                    break
            if bad:
                rep.violation("frontend:" + name, "%s: the text %r must be rejected with a SyntaxError before any output | %s" % (name, src, bad),
                              "# directed front-end regression (native, not solver-decided)\n### PROGRAM\n%s\n### EXPECT SyntaxError\n### NATIVE\n%s\n" % (src, bad))
            else:
                res["rejected_with_syntax_error_and_no_output"] += 1
        lim = limit_programs()
        res["limit_programs"] = len(lim)
        res["limit_programs_value_or_error_and_balanced_ledger"] = 0
        nat.eval_one("1", release=True)  # build the release binary before the pool starts

        def one_limit(item):
            name, src = item
            for prof in ("dev", "release"):
                j = nat.eval_one(src, release=(prof == "release"), timeout=120)
                r = j.get("result", {})
                if not ("ok" in r or "error" in r):
                    return "%s: %s" % (prof, str(r)[:160])
                if "error" in r and r["error"].get("kind") not in ("SyntaxError", "ReferenceError", "TypeError", "IndexError", "ArgumentError"):
                    return "%s: undocumented error kind %r" % (prof, r["error"].get("kind"))
                if j.get("leak") not in (None, 0):
                    return "%s: heap ledger %+d block(s)" % (prof, j["leak"])
            return None

        from concurrent.futures import ThreadPoolExecutor
        with ThreadPoolExecutor(8) as ex:
            outcomes = list(ex.map(one_limit, lim))
        for (name, src), bad in zip(lim, outcomes):
            if bad:
                rep.violation("frontend:" + name, "%s: a program beyond a limit of the bytecode format must end in a value or a documented error, with nothing left allocated | %s" % (name, bad),
                              "# program beyond a limit of the bytecode format (native, not solver-decided); generated by lib/nlv/props.py limit_programs(), first 200 characters:\n"
                              "### PROGRAM\n%s\n### NATIVE\n%s\n" % (src[:200], bad))
            else:
                res["limit_programs_value_or_error_and_balanced_ledger"] += 1
    finally:
        nat.close()
    return res


def gc_items(seed, tier):
    """allocating programs for C03/C04: the gc family (heap shapes, collection points at every call depth, nested / shared / cyclic
    results, abort-point sweeps), sequences (aliasing), calls, error programs, loops inside functions"""
    from .nlsym import skeletons as sk
    items = fams("gc", "sequences", "calls") + [x for x in fams("boundary", "builtins", "compose")]
    items += [x for x in sk.fam_loop_bodies(2 if tier == "quick" else 3, contexts=("fn",))]
    items += rnd(seed, 40 if tier == "quick" else 400)
    # retained sessions whose lines keep heap values in globals across failing lines / results / collections
    items += [x for x in sk.fam_sessions_directed() if any(k in x[0] for k in ("heap", "result-then", "string-result", "nested-result", "constant-reuse"))]
    items += [x for x in sk.fam_sessions(3, names=("array", "usearray", "text", "usetext", "fail-in-fn", "fn")) ]
    return items


GC_ASSUME = ["what the solver decides here: (1) Kani contracts on the real VM::run - the exact root slices handed to the collector at every collection point "
             "(Return / ReturnValue), the constants offered to the collector when a run starts, the result taken out of it exactly once at Halt and nothing on an "
             "error exit; Kani harnesses on the real gc.rs for single steps (constructors register, adoption of heap values only, untrace of a flat value, a rooted "
             "float survives); (2) z3 explores every path of every allocating program (which objects are live at which collection / abort point follows from the path)",
             "what is NOT decided by a solver: mark/sweep over arrays, cycles and several objects - gc.rs on a heap of >= 2 objects did not finish under CBMC in 900 s "
             "even over a Vec<bool> model of bitvec (DESIGN.md 5.1). For these the REAL collector runs natively on one witness per explored path: a reclaimed-but-reachable "
             "object shows as a wrong value (freed memory is overwritten before the result is read, the machine is dropped before the result is read), and the heap ledger "
             "(counting global allocator) must balance after the caller released the result: +n = leak, -n = released twice",
             "abort points are error-raising instructions selected by a symbolic hole (every value is a path), not an injected fault after every k-th instruction"]


PROPS = {
    "C15": run_C15,
    "C03": s_property("C03", "translation_validation", lambda seed: gc_items(seed, "quick"), lambda seed: gc_items(seed, "thorough"), k=True,
                      kinds=("witness", "ledger", "unsafe", "session"), extra_assume=GC_ASSUME),
    "C04": s_property("C04", "translation_validation", lambda seed: gc_items(seed, "quick"), lambda seed: gc_items(seed, "thorough"), k=True,
                      kinds=("ledger", "witness", "session"), extra_assume=GC_ASSUME),
    "C08": run_C08,
    "C01": s_property("C01", "translation_validation",
                      lambda seed: fams("compose", "control", "calls", "scoping", "sequences", "builtins", "boundary", "gc", "undeclared") + op_forms_light() + exh(2) + loops(2) + rnd(seed, 60),
                      lambda seed: fams("compose", "control", "calls", "scoping", "sequences", "builtins", "boundary", "operator_forms", "gc")
                      + exh(3) + loops(3) + rnd(seed, 600), k=True),
    "C02": s_property("C02", "translation_validation",
                      lambda seed: fams("control", "calls", "scoping", "boundary", "sequences", "undeclared", "gc") + exh(2) + loops(2) + rnd(seed, 40),
                      lambda seed: fams("control", "calls", "scoping", "boundary", "sequences", "compose", "undeclared", "gc") + exh(3) + loops(3) + rnd(seed, 600),
                      k=True, kinds=("unsafe", "typing", "residue", "witness")),
    "C05": s_property("C05", "translation_validation",
                      lambda seed: fams("boundary", "builtins", "calls") + [x for x in fams("operator_forms") if ":mixed:" in x[0] or ":same:" in x[0]],
                      lambda seed: fams("boundary", "builtins", "operator_forms", "sequences") + rnd(seed, 300), k=True, front_end=True,
                      extra_assume=["claimed for the BACK END and the LEXER (Kani harnesses per first character, DESIGN.md 5 C08); parsing as a function of arbitrary token sequences "
                                    "(truncations, termination of the parser loops) cannot be executed symbolically here (DESIGN.md 1) and is outside the claim; "
                                    "18 directed texts the front end must reject are run natively as regressions of repaired defects (reported separately, not solver-decided)"]),
    "C09": s_property("C09", "translation_validation",
                      lambda seed: fams("scoping", "undeclared") + rnd(seed, 30),
                      lambda seed: fams("scoping", "undeclared", "calls") + exh(3) + rnd(seed, 300), k=True),
    "C11": s_property("C11", "translation_validation",
                      lambda seed: fams("control") + loops(2) + rnd(seed, 30),
                      lambda seed: fams("control") + exh(3) + loops(3) + rnd(seed, 400), k=True),
    "C12": s_property("C12", "translation_validation",
                      lambda seed: fams("calls", "gc") + rnd(seed, 40),
                      lambda seed: fams("calls", "scoping") + rnd(seed, 400), k=True),
    "C13": s_property("C13", "model_checking",
                      lambda seed: fams("sequences", "gc"),
                      lambda seed: fams("sequences", "compose", "gc") + rnd(seed, 200), k=True),
    "C14": s_property("C14", "model_checking",
                      lambda seed: fams("builtins") + [x for x in fams("boundary") if "int-of" in x[0] or "float-of" in x[0] or "builtin" in x[0] or "string-of" in x[0] or "bool-of" in x[0]]
                      + [x for x in fams("compose") if "print" in x[0] or "builtins" in x[0] or "float-int" in x[0]]
                      + [x for x in fams("sequences") if "str-len" in x[0] or "str-set-multi" in x[0] or "str-set-empty" in x[0] or "str-eq-after-set-len" in x[0]],
                      lambda seed: fams("builtins", "boundary", "compose"), k=True,
                      extra_assume=["outside the claim: float <-> text (Grisu / dec2flt on symbolic input), print's substitution on symbolic TEXT, text -> number on symbolic text; "
                                    "these are exercised on concrete literals by Engine S only"]),
    "C10": s_property("C10", "translation_validation",
                      lambda seed: pairs(),
                      lambda seed: pairs(), k=True,
                      kinds=("pair",)),
    "C17": s_property("C17", "translation_validation",
                      lambda seed: sessions(3, seed, 200, 4),
                      lambda seed: sessions(3, seed, 3000, 6), k=True, kinds=("session",)),
    "C06": s_property("C06", "model_checking",
                      lambda seed: fams("operator_forms") + [x for x in fams("boundary") if "nan" in x[0] or "inf-" in x[0] or "float-div" in x[0] or "signed-zero" in x[0] or "literals" in x[0]],
                      lambda seed: fams("operator_forms") + [x for x in fams("boundary") if "nan" in x[0] or "inf-" in x[0] or "float-div" in x[0] or "signed-zero" in x[0] or "literals" in x[0]], k=True),
}
