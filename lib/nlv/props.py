"""Per-property checks: which engines decide which property (DESIGN.md section 5)."""
from .kcheck import check_k, k_coverage
from .report import Report


def run_C15(tier, seed):
    rep = Report("C15", tier, seed, "model_checking")
    s = check_k("C15", tier, rep)
    rep.coverage = k_coverage(s)
    rep.assumptions = ["CBMC's model of Rust integer, pointer-to-integer and float bit casts",
                       "strings from an 8-entry literal table, arrays <= 3 elements (bound)",
                       "random UTF-8 / nested arrays beyond the bound are outside the claim"]
    return rep.finish()


PROPS = {"C15": run_C15}
