"""Evidence files, known findings, VIOLATION lines, exit codes (DESIGN.md section 3)."""
import json
import os
import re
import sys
import time

VERIF = os.path.dirname(os.path.dirname(os.path.dirname(os.path.abspath(__file__))))
# NLV_OUT redirects evidence and replay files (used when the checks are pointed at a scratch tree with a seeded change)
_OUT = os.environ.get("NLV_OUT") or VERIF
EVIDENCE_DIR = os.path.join(_OUT, "evidence")
REPLAY_DIR = os.path.join(_OUT, "replays")
KNOWN = os.path.join(VERIF, "known_findings.txt")


def load_known():
    """-> {property: [(key, text)]} from known_findings.txt ('finding:' lines only; 'fixed:' suppresses nothing)."""
    out = {}
    if not os.path.exists(KNOWN):
        return out
    for line in open(KNOWN):
        line = line.strip()
        m = re.match(r"finding:\s+property=(\S+)\s+key=(\S+)\s*(.*)", line)
        if m:
            out.setdefault(m.group(1), []).append((m.group(2), m.group(3)))
    return out


class Violation:
    def __init__(self, prop, key, text, replay_text, kind="violation"):
        self.prop, self.key, self.text, self.replay_text, self.kind = prop, key, text, replay_text, kind
        self.replay_path = None


class Report:
    def __init__(self, prop, tier, seed, level):
        self.prop, self.tier, self.seed, self.level = prop, tier, seed, level
        self.t0 = time.time()
        self.violations = []
        self.inconclusive = []
        self.coverage = {}
        self.assumptions = []
        self.known_hits = []

    def violation(self, key, text, replay_text):
        self.violations.append(Violation(self.prop, key, text, replay_text))

    def unreproduced(self, text):
        self.inconclusive.append(text)

    def finish(self):
        known = load_known().get(self.prop, [])
        new = []
        for v in self.violations:
            hit = [k for k in known if k[0] == v.key]
            if hit:
                self.known_hits.append((v.key, hit[0][1] or v.text))
            else:
                new.append(v)
        printed = set()
        for key, text in self.known_hits:
            if key not in printed:
                printed.add(key)
                print("KNOWN-FINDING: property=%s key=%s %s" % (self.prop, key, text))
        os.makedirs(os.path.join(REPLAY_DIR, self.prop), exist_ok=True)
        seen_keys = set()
        for v in new:
            if v.key in seen_keys:
                continue
            seen_keys.add(v.key)
            name = re.sub(r"[^A-Za-z0-9_.-]+", "_", v.key)[:80] or "violation"
            path = os.path.join(REPLAY_DIR, self.prop, name + ".txt")
            with open(path, "w") as f:
                f.write("# property %s  key=%s\n# %s\n" % (self.prop, v.key, v.text.replace("\n", "\n# ")))
                f.write(v.replay_text)
            v.replay_path = path
            print("VIOLATION property=%s replay=%s" % (self.prop, path))
            print("  key=%s %s" % (v.key, v.text[:400].replace("\n", " ")))
        for t in self.inconclusive:
            print("UNREPRODUCED property=%s %s" % (self.prop, t[:400].replace("\n", " ")))
        ev = {
            "property_id": self.prop,
            "tier": self.tier,
            "seed": self.seed,
            "level": self.level,
            "coverage": self.coverage,
            "assumptions": self.assumptions,
            "wall_s": round(time.time() - self.t0, 2),
            "violations": len(seen_keys),
            "known_findings_hit": sorted(printed),
            "inconclusive": self.inconclusive[:20],
        }
        os.makedirs(EVIDENCE_DIR, exist_ok=True)
        with open(os.path.join(EVIDENCE_DIR, self.prop + ".json"), "w") as f:
            json.dump(ev, f, indent=1, default=str)
        if seen_keys:
            return 1
        if self.inconclusive:
            return 2
        return 0
