"""Verbatim scratch overlay of /repo's current working tree (DESIGN.md section 2.1).

Nothing in /repo is touched.  The overlay is a byte-for-byte copy of src/, benches/,
Cargo.toml and Cargo.lock with harness modules APPENDED to the copies of the source
files.  It lives outside /repo and /verif and is removed on exit.
"""
import atexit
import fcntl
import filecmp
import hashlib
import os
import shutil
import subprocess
import tempfile
import time

REPO = os.environ.get("NLV_REPO", "/repo")
VERIF = os.path.dirname(os.path.dirname(os.path.dirname(os.path.abspath(__file__))))
HARNESS = os.path.join(VERIF, "harness")
CACHE = os.environ.get("NLV_CACHE", os.path.join(VERIF, ".cache"))

BASE_ENV = dict(os.environ)
BASE_ENV.update({
    "CARGO_NET_OFFLINE": "true",
    "CARGO_TERM_COLOR": "never",
})

_live = []


def _cleanup():
    for o in list(_live):
        o.cleanup()


atexit.register(_cleanup)


class Overlay:
    def __init__(self, appends=None, extra_files=None, tag="nlv", shims=None):
        """appends: {relative source file: [harness file names]}"""
        base = os.environ.get("NLV_TMP") or tempfile.gettempdir()
        self.dir = tempfile.mkdtemp(prefix=tag + "-", dir=base)
        _live.append(self)
        self.appended = {}
        for name in ("Cargo.toml", "Cargo.lock"):
            shutil.copy2(os.path.join(REPO, name), os.path.join(self.dir, name))
        shutil.copytree(os.path.join(REPO, "src"), os.path.join(self.dir, "src"))
        if os.path.isdir(os.path.join(REPO, "benches")):
            shutil.copytree(os.path.join(REPO, "benches"), os.path.join(self.dir, "benches"))
        # byte-for-byte verification of the copy
        cmp = filecmp.dircmp(os.path.join(REPO, "src"), os.path.join(self.dir, "src"))
        assert not cmp.left_only and not cmp.right_only and not cmp.diff_files, "overlay copy differs"
        self.source_digest = self._digest()
        with open(os.path.join(self.dir, ".cargo_config_dir_marker"), "w") as f:
            f.write("overlay of %s at %s\n" % (REPO, time.ctime()))
        os.makedirs(os.path.join(self.dir, ".cargo"), exist_ok=True)
        with open(os.path.join(self.dir, ".cargo", "config.toml"), "w") as f:
            f.write("[net]\noffline = true\n")
        for rel, files in (appends or {}).items():
            for h in files:
                self.append(rel, h)
        # dependency models (overlay only): [patch.crates-io] <crate> = { path = "shim/<crate>" }
        self.shims = list(shims or [])
        if self.shims:
            with open(os.path.join(self.dir, "Cargo.toml"), "a") as f:
                f.write("\n[patch.crates-io]\n")
                for name in self.shims:
                    shutil.copytree(os.path.join(HARNESS, "shim_" + name), os.path.join(self.dir, "shim", name))
                    f.write('%s = { path = "shim/%s" }\n' % (name, name))
        for rel, h in (extra_files or {}).items():
            dst = os.path.join(self.dir, rel)
            os.makedirs(os.path.dirname(dst), exist_ok=True)
            shutil.copy2(os.path.join(HARNESS, h), dst)

    def _digest(self):
        h = hashlib.sha256()
        for root, _, files in sorted(os.walk(os.path.join(self.dir, "src"))):
            for fn in sorted(files):
                p = os.path.join(root, fn)
                h.update(os.path.relpath(p, self.dir).encode())
                with open(p, "rb") as f:
                    h.update(f.read())
        return h.hexdigest()[:16]

    def append(self, rel, harness_file, text=None):
        dst = os.path.join(self.dir, rel)
        if text is None:
            with open(os.path.join(HARNESS, harness_file)) as f:
                text = f.read()
        with open(dst, "a") as f:
            f.write("\n" + text)
        self.appended.setdefault(rel, []).append(harness_file)

    def cleanup(self):
        if self in _live:
            _live.remove(self)
        shutil.rmtree(self.dir, ignore_errors=True)

    # ---------------------------------------------------------------- native
    def build_native(self, release=False, timeout=900):
        """cargo build of the overlay with --cfg nlverif; returns path of nl-dump (copied into the overlay)."""
        os.makedirs(CACHE, exist_ok=True)
        prof = "release" if release else "debug"
        tdir = os.path.join(CACHE, "target-native")
        env = dict(BASE_ENV)
        env["RUSTFLAGS"] = "--cfg nlverif -A warnings"
        env["CARGO_TARGET_DIR"] = tdir
        cmd = ["cargo", "build", "--offline", "--bin", "nl-dump"]
        if release:
            cmd.append("--release")
        lock = open(os.path.join(CACHE, "native.lock"), "w")
        fcntl.flock(lock, fcntl.LOCK_EX)
        try:
            t0 = time.time()
            p = subprocess.run(cmd, cwd=self.dir, env=env, capture_output=True, text=True, timeout=timeout)
            if p.returncode != 0:
                raise BuildError("native build of overlay failed:\n" + p.stderr[-4000:])
            out = os.path.join(self.dir, "nl-dump-" + prof)
            shutil.copy2(os.path.join(tdir, prof, "nl-dump"), out)
            self.native_build_s = time.time() - t0
            return out
        finally:
            fcntl.flock(lock, fcntl.LOCK_UN)
            lock.close()


class BuildError(Exception):
    pass


def native_overlay():
    """Overlay with the observation layer only (no proof harnesses)."""
    return Overlay(
        appends={"src/lib.rs": ["lib_append.rs"], "src/builtins.rs": ["builtins_append.rs"],
                 "src/compiler.rs": ["compiler_append.rs"], "src/vm.rs": ["vm_append.rs"]},
        extra_files={"src/bin/nl-dump.rs": "nl_dump_bin.rs"},
        tag="nlv-native",
    )
