"""Registry of Kani harnesses (Engine K): which harness serves which property, in which tier, with which bound.

H(name, props, tier, timeout_s, optional, bound)
  tier      'quick'  : run in both tiers;  'thorough' : thorough tier only
  optional  True     : 'undecided' (solver cap) is tolerated and reported as not decided
"""


class H:
    def __init__(self, name, props, tier="quick", timeout=150, optional=False, bound="", tprops=None, module=None, src=None, expect_only=None):
        self.name, self.props, self.tier, self.timeout, self.optional, self.bound = name, props, tier, timeout, optional, bound
        self.tprops = tprops or []  # properties that include this harness in the thorough tier only
        # expect_only: the harness is MEANT to end in a failed check of exactly this class (e.g. the bounds-check panic of an access
        # beyond the stack); any other failed check (e.g. an arithmetic overflow on the way) is the violation, no failure at all is vacuous
        self.expect_only = expect_only
        self.module, self.src = module, src  # override of the group's harness module / source file (harness lives in another file of the same overlay)


GROUPS = {
    "object": {
        "src": "src/object.rs",
        "harness_file": "object_proofs.rs",
        "module": "object::__verif_k",
        "functions": ["object.rs: Object::{int,as_int,bool,as_bool,null,function,function_with_arity,as_function,function_arity,tag,"
                      "is_heap_allocated,as_ptr,as_f64,as_str,as_vec}, Float::from_f64, String::from_string, Array::from_vec, "
                      "PartialEq/PartialOrd for Object, impl_arith!/impl_cmp!/impl_logical! expansions (add sub mul div rem gt gte lt lte eq neq and or)"],
        "stubs": ["alloc::fmt::format -> empty String (error messages are outside every property)",
                  "GC::trace -> no-op (objects leak in the model; collection is C03/C04)"],
        "harnesses": [
            H("c15_int_roundtrip", ["C15"], bound="all 2^61 integers"),
            H("c15_bool_null_roundtrip", ["C15"], bound="both booleans, null"),
            H("c15_function_roundtrip", ["C15"], bound="all 2^32 x 2^16 x 2^8 (entry, locals, arity) descriptors"),
            H("c15_float_roundtrip", ["C15"], bound="all 2^64 float bit patterns"),
            H("c15_string_roundtrip", ["C15"], bound="8-entry literal table: empty, ASCII, 2/3/4-byte code points"),
            H("c15_array_roundtrip", ["C15"], bound="arrays of length 0..=3 of arbitrary immediates"),
            H("c15_tag_of_every_shape", ["C15"], bound="any value of any of the 7 types (arrays <= 2 immediates)"),
            H("c15_eq_pairwise", ["C15"], bound="full product of two arbitrary scalar/text/function values"),
            H("c15_int_eq_exact", ["C15", "C06"], bound="all 2^61 x 2^61 integer pairs"),
            H("c15_float_eq_exact", ["C15"], bound="all 2^64 x 2^64 float bit patterns"),
            H("c06_int_add", ["C06", "C05"], bound="all 2^61 x 2^61 pairs"),
            H("c06_int_sub", ["C06", "C05"], bound="all 2^61 x 2^61 pairs"),
            H("c06_int_mul_small", ["C06"], bound="|a|,|b| <= 2^16, both symbolic"),
            H("c06_int_mul_const", ["C06", "C05"], bound="a: all 2^61; b in {2,-3,7,10,-10,2^30,MAX,MIN}"),
            H("c06_int_mul_const_l", ["C06"], bound="a in {2,-3,7,10,-10,2^30,MAX,MIN}; b: all 2^61"),
            H("c06_int_div_unit", ["C06", "C05"], bound="a: all 2^61; b in {-1,0,1}"),
            H("c06_int_rem_unit", ["C06", "C05"], bound="a: all 2^61; b in {-1,0,1}"),
            H("c06_int_div_ends", ["C06"], bound="a: all 2^61; b in {MIN,MAX}"),
            H("c06_int_rem_ends", ["C06"], bound="a: all 2^61; b in {MIN,MAX}"),
            H("c06_int_div_const", ["C06"], bound="a: all 2^61; b in {2,-3,7,10,-10,2^30,MAX,MIN}"),
            H("c06_int_rem_const", ["C06"], bound="a: all 2^61; b in {2,-3,7,10,-10,2^30,MAX,MIN}"),
            H("c06_int_div_const_l", ["C06"], "thorough", 600, True, bound="a in {2,-3,7,10,-10,2^30,MAX,MIN}; b: all 2^61"),
            H("c06_int_rem_const_l", ["C06"], "thorough", 600, True, bound="a in {2,-3,7,10,-10,2^30,MAX,MIN}; b: all 2^61"),
            H("c06_int_div_small", ["C06"], "thorough", 900, True, bound="|a| <= 2^20, |b| <= 2^10, both symbolic"),
            H("c06_int_rem_small", ["C06"], "thorough", 900, True, bound="|a| <= 2^20, |b| <= 2^10, both symbolic"),
            H("c06_int_div_full", ["C06"], "thorough", 900, True, bound="all 2^61 x 2^61 pairs (attempted)"),
            H("c06_int_rem_full", ["C06"], "thorough", 900, True, bound="all 2^61 x 2^61 pairs (attempted)"),
            H("c06_int_lt", ["C06"], bound="all 2^61 x 2^61 pairs"),
            H("c06_int_lte", ["C06"], bound="all 2^61 x 2^61 pairs"),
            H("c06_int_gt", ["C06"], bound="all 2^61 x 2^61 pairs"),
            H("c06_int_gte", ["C06"], bound="all 2^61 x 2^61 pairs"),
            H("c06_int_eq", ["C06"], bound="all 2^61 x 2^61 pairs"),
            H("c06_int_neq", ["C06"], bound="all 2^61 x 2^61 pairs"),
            H("c06_float_add", ["C06"], bound="all 2^64 x 2^64 bit patterns"),
            H("c06_float_sub", ["C06"], bound="all 2^64 x 2^64 bit patterns"),
            H("c06_float_mul", ["C06"], "thorough", 900, True, bound="all 2^64 x 2^64 bit patterns"),
            H("c06_float_div", ["C06"], "thorough", 900, True, bound="all 2^64 x 2^64 bit patterns (attempted)"),
            H("c06_float_lt", ["C06", "C05"], bound="all 2^64 x 2^64 bit patterns"),
            H("c06_float_lte", ["C06", "C05"], bound="all 2^64 x 2^64 bit patterns"),
            H("c06_float_gt", ["C06", "C05"], bound="all 2^64 x 2^64 bit patterns"),
            H("c06_float_gte", ["C06", "C05"], bound="all 2^64 x 2^64 bit patterns"),
            H("c06_float_eq", ["C06"], bound="all 2^64 x 2^64 bit patterns"),
            H("c06_float_neq", ["C06"], bound="all 2^64 x 2^64 bit patterns"),
            H("c06_float_cmp_same_object", ["C06", "C15"], bound="one float object compared with itself, all 2^64 bit patterns, six comparisons + PartialEq"),
            H("c15_eq_reflexive", ["C15", "C06"], bound="any scalar / text / function value compared with itself"),
            H("c06_string_cmp_ascii2", ["C06"], bound="all pairs of ASCII texts of length 0..=2, six comparisons"),
            H("c06_string_cmp_t4", ["C06"], "thorough", 300, True, bound="'é' against the 8-entry literal table"),
            H("c06_string_cmp_t5", ["C06"], "thorough", 300, True, bound="'aé' against the 8-entry literal table"),
            H("c06_string_cmp_t6", ["C06"], "thorough", 300, True, bound="'€' against the 8-entry literal table"),
            H("c06_cross_type_all_ops", ["C06", "C05"], bound="13 operators x all unsupported (type,type) combinations of the 7 types"),
            H("c06_bool_logic_and_order", ["C06"], bound="4 boolean pairs"),
            H("c06_function_eq", ["C06", "C15"], bound="all pairs of (entry, locals) descriptors"),
        ],
    },
}


VM_STUBS = ["alloc::fmt::format -> empty String", "VM::next -> first call: installs bp, consumes the opcode byte, returns the contract's opcode; second call: Halt (single step)",
            "GC::{trace,maybe_trace,untrace,destroy} -> no-op, GC::run -> recorder of the root slices (collection itself: gc.rs harnesses)"]
CW = "stack window: 1-4 arbitrary immediates (null/bool/61-bit int/function descriptor), symbolic operands; "

GROUPS["vm"] = {
    "stub_based": True,
    "src": "src/vm.rs",
    "extra": {"src/object.rs": ["object_proofs.rs"]},
    "harness_file": "vm_proofs.rs",
    "module": "vm::__verif_k",
    "functions": ["vm.rs: VM::run / run_with_gc dispatch loop (one arm per harness), VM::{next,read_u8,read_u16,pop,push,get_local,set_local,jump,pushframe,popframe}, "
                  "index_get, index_set, index_get_array, index_set_array, index_get_string, index_set_string"],
    "stubs": VM_STUBS,
    "harnesses": [
        H("k_next_real", ["C02"], bound="any opcode byte the compiler can emit (0..=Halt), real get_unchecked + transmute; read_u8/read_u16", tprops=["C01", "C05"]),
        H("k_push_null", ["C02", "C11"], bound=CW + "Null", tprops=["C01", "C05"]),
        H("k_push_true", ["C02", "C11"], bound=CW + "True", tprops=["C01", "C05"]),
        H("k_push_false", ["C02", "C11"], bound=CW + "False", tprops=["C01", "C05"]),
        H("k_pop_sets_result", ["C02", "C11"], bound=CW + "Pop", tprops=["C01", "C05"]),
        H("k_halt_and_prologue", ["C02", "C11", "C17"], bound=CW + "run() from an arbitrary retained ip/bp/frame 0/globals", tprops=["C01", "C05"]),
        H("k_halt_hands_over_result", ["C03", "C04", "C02"], bound=CW + "Pop; Halt: GC::untrace (recorder) is called once, with the value returned", tprops=["C01"]),
        H("k_error_exit_hands_over_nothing", ["C04", "C03"], bound=CW + "Not on any non-boolean immediate: Err, no untrace, no collection", tprops=["C01"]),
        H("k_prologue_adopts_constants", ["C03", "C04"], bound="3 constants (any immediate, a float, a text): GC::maybe_trace (recorder) sees each once, in order", tprops=["C01"]),
        H("k_frame_roundtrip_any_position", ["C02", "C12"], bound="pushframe / popframe with ANY usize resume position, any 32-bit entry, base pointer <= 2", tprops=["C01", "C05"]),
        H("k_const", ["C02", "C12", "C10"], bound=CW + "1-3 constants, any index in range", tprops=["C01", "C05"]),
        H("k_const_string_is_copied", ["C02", "C10", "C13"], bound="string constant 'ab'", tprops=["C01"]),
        H("k_set_global_existing", ["C02", "C09", "C17"], bound=CW + "2 globals, index < 2", tprops=["C01", "C05", "C10"]),
        H("k_set_global_grows", ["C02", "C09", "C17"], bound=CW + "1 global, index 3", tprops=["C01", "C05"]),
        H("k_get_global", ["C02", "C05", "C09", "C17"], bound=CW + "0-2 globals, ANY 16-bit index", tprops=["C01", "C10"]),
        # k_local_slot_wide (70 000-slot stack, slot arithmetic beyond 65 535) is kept in vm_proofs.rs but not registered:
        # CBMC aborts (status 6) on the 560 KB stack object; the 16-bit limits are outside the claim (DESIGN.md 4.3-6)
        H("k_local_slot_beyond_stack", ["C12", "C02"], bound="2-slot stack, ANY 16-bit bp and index with bp + idx >= 2 (sums beyond 65 535 included): the access must end in the "
          "bounds-check panic and in nothing else - no arithmetic overflow on the way, i.e. the slot is not computed in 16 bits", expect_only=r"index out of bounds", tprops=["C01"]),
        H("k_get_local", ["C02", "C09", "C12"], bound=CW + "4 slots, any bp+idx < 4", tprops=["C01", "C05", "C10"]),
        H("k_set_local", ["C02", "C09", "C12"], bound=CW + "4 slots, any bp+idx < 3", tprops=["C01", "C05", "C10"]),
        H("k_jump", ["C02", "C11"], bound=CW + "any 16-bit target", tprops=["C01", "C05"]),
        H("k_jump_if_false", ["C02", "C05", "C11"], bound=CW + "any condition value, any 16-bit target", tprops=["C01"]),
        H("k_not", ["C02", "C05"], bound=CW + "any operand", tprops=["C01", "C06"]),
        H("k_negate", ["C02", "C05"], bound=CW + "any immediate operand incl. MIN_INT", tprops=["C01", "C06"]),
        H("k_negate_float", ["C02"], bound="any f64 bit pattern", tprops=["C01", "C06"]),
        H("k_call", ["C02", "C05", "C12"], bound=CW + "0-2 arguments, callee any immediate, num_locals <= arity+3", tprops=["C01"]),
        H("k_return_value", ["C02", "C12", "C03", "C04"], bound=CW + "2-3 frames, any callee base <= 3; records the root slices given to the collector", tprops=["C01", "C05", "C04"]),
        H("k_return", ["C02", "C12", "C03", "C04"], bound=CW + "2-3 frames, any callee base <= 4; records the root slices given to the collector", tprops=["C01", "C05", "C04"]),
        H("k_array_0", ["C02", "C13"], bound=CW + "Array 0", tprops=["C01", "C05"]),
        H("k_array_2", ["C02", "C13"], bound=CW + "Array 2", tprops=["C01", "C05"]),
        H("k_array_3", ["C02", "C13"], bound=CW + "Array 3", tprops=["C01", "C05"]),
        H("k_call_builtin_0", ["C02", "C14"], bound=CW + "0 arguments, any builtin number 0..=6 (builtins::call stubbed: recorder)", tprops=["C01", "C05"]),
        H("k_call_builtin_1", ["C02", "C14"], bound=CW + "1 argument", tprops=["C01", "C05"]),
        H("k_call_builtin_3", ["C02", "C14"], bound=CW + "3 arguments", tprops=["C01", "C05"]),
        H("k_index_get_plumbing", ["C02", "C13"], bound=CW + "index_get stubbed: recorder", tprops=["C01", "C05"]),
        H("k_index_set_plumbing", ["C02", "C13"], bound=CW + "index_set stubbed: recorder", tprops=["C01", "C05"]),
    ]
    + [H("k_binop_" + n, ["C02"], bound=CW + ("kernel stubbed: recorder (operand order, plumbing)" if n in ("mul", "div", "rem") else "real kernel as oracle"),
         tprops=["C01", "C05", "C06"]) for n in ("add", "sub", "mul", "div", "rem", "lt", "lte", "gt", "gte", "eq", "neq", "and", "or")]
    + [H("k_fused_" + n, ["C02", "C10"], bound=CW + "variable slot bp+idx < 3, 2 constants" + ("; kernel stubbed: recorder" if n in ("mul", "div", "rem") else ""),
         tprops=["C01", "C05", "C06"]) for n in ("add", "sub", "mul", "div", "rem", "lt", "lte", "gt", "gte", "eq", "neq")]
    + [H(n, ["C13"], "thorough" if "string" in n else "quick", 600 if "string" in n else 150, "string" in n, bound=b, tprops=["C01", "C05"]) for n, b in [
        ("c13_array_get_0", "empty list, ANY isize index"), ("c13_array_set_0", "empty list, ANY isize index"),
        ("c13_array_get_1", "1-element list, ANY isize index"), ("c13_array_set_1", "1-element list, ANY isize index"),
        ("c13_array_get_3", "3-element list, ANY isize index"), ("c13_array_set_3", "3-element list, ANY isize index"),
        ("c13_string_get_empty", "'' , ANY isize index"), ("c13_string_set_empty", "'', ANY isize index, text / non-text value"),
        ("c13_string_get_ab", "'ab', ANY isize index"), ("c13_string_set_ab", "'ab', ANY isize index, text / non-text value"),
        ("c13_string_get_mixed", "'aé€' (1-,2-,3-byte code points), ANY isize index"), ("c13_string_set_mixed", "'aé€', ANY isize index, text / non-text value"),
        ("c13_string_get_flag", "'🇳x' (4-byte code point), ANY isize index"), ("c13_string_set_flag", "'🇳x', ANY isize index, text / non-text value"),
    ]]
    + [H("c13_index_type_errors", ["C13"], "thorough", 600, True, bound="every (container, index) type pair except (sequence, int), get and set", tprops=["C01"])],
}

GROUPS["builtins"] = {
    "src": "src/builtins.rs",
    "extra": {"src/object.rs": ["object_proofs.rs"]},
    "harness_file": "builtins_proofs.rs",
    "module": "builtins::__verif_k",
    "functions": ["builtins.rs: call, call_type, call_string, call_bool, call_int, call_float, call_length"],
    "stubs": ["alloc::fmt::format -> empty String", "GC::trace -> no-op", "Object::tag -> its contract on float values, asserted on the raw word (c14_int_of_float_all_bits only)"],
    "harnesses": [
        H("c14_arity_0", ["C14", "C05"], bound="6 builtins x 0 arguments"),
        H("c14_arity_2", ["C14"], "thorough", 900, True, bound="6 builtins x 2 arbitrary immediates"),
        H("c14_arity_3", ["C14"], "thorough", 900, True, bound="6 builtins x 3 arbitrary immediates"),
        H("c14_bool", ["C14"], bound="any value of the 7 types (61-bit ints, all f64 bit patterns, literal-table text, lists <= 2)"),
        H("c14_int_float_of_immediates", ["C14"], "thorough", 900, True, bound="null, both booleans, all 2^61 ints, all function descriptors"),
        H("c14_int_of_float", ["C14"], "thorough", 900, True, bound="all 2^64 float bit patterns, real Object::tag (attempted: not decided in 900 s - the tag of a heap value is not folded, the text arm of call_int is explored)"),
        H("c14_int_of_float_all_bits", ["C14", "C05"], timeout=300, bound="all 2^64 float bit patterns; Object::tag replaced by its contract on values made by Object::float (the stub asserts the tag bits on the raw word; the real tag is decided by c15_tag_of_every_shape)"),
        H("c14_type_names", ["C14"], timeout=300, bound="any value of the 7 types"),
        H("c14_lengte", ["C14"], "thorough", 600, True, bound="any value of the 7 types; text from the literal table (1- to 4-byte code points)"),
        H("c14_string_non_numeric", ["C14"], "thorough", 600, True, bound="null, bool, text, list, function"),
        H("c14_int_of_text", ["C14"], "thorough", 600, True, bound="8 decimal / padded / negative / non-numeric / out-of-range texts"),
    ],
}

GC_B = "heap shape and root set fixed by the harness, float payloads: all 2^64 bit patterns; "
GROUPS["gc"] = {
    "src": "src/gc.rs",
    "harness_file": "gc_proofs.rs",
    "module": "gc::__verif_k",
    "shims": ["bitvec"],
    "functions": ["gc.rs: GC::{new,trace,maybe_trace,untrace,run,mark,sweep,destroy} (verbatim)",
                  "object.rs: Object::{float,string,array,free,free_recursive,as_vec,as_vec_mut,as_ptr,tag,is_heap_allocated}"],
    "stubs": ["crate bitvec -> 80-line Vec<bool> model with bounds-CHECKED get_unchecked/set_unchecked (overlay [patch.crates-io]; "
              "that the real crate implements a vector of bits is trusted)"],
    "harnesses": [
        H("c03_constructors_register", ["C03", "C04"], timeout=300, bound="Object::float (any bit pattern), Object::string, Object::array with one collector: one entry each, in order"),
        H("c04_maybe_trace_only_heap", ["C04", "C03"], timeout=300, bound="null, bool, any i32, any function descriptor are not adopted; a float of another collector is, once"),
        H("c04_untrace_flat", ["C04"], "thorough", 900, True, bound="one float + one foreign float: untrace takes out exactly the given object; again / unknown object is a no-op (attempted: not decided in 600 s)"),
        H("c03_rooted_float_survives", ["C03"], "thorough", 900, True, bound="one float (any bit pattern), rooted (attempted: not decided in 600 s)"),
        H("c04_unrooted_float_released", ["C04"], timeout=600, optional=True, bound="one float, no root: released by the collection, a second collection and destroy release nothing more (attempted)"),
    ],
}

LX = "first character concrete (enumerated), then "
GROUPS["lexer"] = {
    "src": "src/lexer.rs",
    "harness_file": "lexer_proofs.rs",
    "module": "lexer::__verif_k",
    "functions": ["lexer.rs: <Tokenizer as Iterator>::next, Tokenizer::{new,peek,is_eof,bump,offset,read_str,skip_while}, "
                  "<Token as From<&str>>::from (keyword table), is_whitespace"],
    "stubs": ["char::is_alphabetic / char::is_alphanumeric -> exact on ASCII; 16-entry table for the non-ASCII characters used; panic outside the table "
              "(that the Unicode tables of core are right is trusted)",
              "core::str::slice_error_fail -> panic (a slice at a non-boundary is reported as a failure)",
              "char::is_numeric -> same table (not called by the unchanged tokenizer; present so that a change that starts calling it is decided rather than timing out)"],
    "harnesses": [],  # filled from harness/lexer_proofs.rs below (one registry entry per macro instantiation)
}

LEXER_C05 = {"c08_first_two_char_ops", "c08_first_punct", "c08_first_illegal", "c08_first_quote",
             "c08_first_digit_0", "c08_first_letter_a", "c08_ws_each_a", "c08_ws_to_eof", "c08_comment_to_eof", "c08_comment_to_eol_a", "c08_number_inner_c"}


def _lexer_harnesses():
    """the harness list of the lexer group is read off the harness file, so names and stated bounds cannot drift from it"""
    import os
    import re
    src = open(os.path.join(os.path.dirname(os.path.dirname(os.path.dirname(os.path.abspath(__file__)))), "harness", "lexer_proofs.rs")).read()
    rows = []
    for m in re.finditer(r'^    (first_char|prefix|skip|stream)_harness!\((c08_\w+), (\d+), (.*)\);$', src, re.M):
        kind, name, _unwind, rest = m.groups()
        if kind == "first_char":
            k, chars = re.match(r'(\d+), \[(.*)\]', rest).groups()
            bound = "first character in %s (enumerated), then 0..=%s symbolic ASCII bytes (every length); one symbolic byte already consumed" % (chars, k)
        elif kind == "prefix":
            k, pre = re.match(r'(\d+), \[(.*)\]', rest).groups()
            bound = "token starts %s, then 0..=%s symbolic ASCII bytes (every length); one symbolic byte already consumed" % (pre, k)
        elif kind == "skip":
            k, sk, fo = re.match(r'(\d+), \[(.*)\], \[(.*)\]', rest).groups()
            bound = "skipped part in %s x follower in %s, then 0..=%s symbolic ASCII bytes" % (sk, fo, k)
        else:
            bound = "whole concrete texts %s: every token (validates the reference tokenizer and the position bookkeeping)" % rest
        props = ["C08", "C05"] if name in LEXER_C05 else ["C08"]
        if name.endswith("_k4"):
            rows.append(H(name, props, "thorough", 900, True, bound=bound))
        elif name.endswith("_x"):
            rows.append(H(name, props, "thorough", 600, bound=bound))
        else:
            rows.append(H(name, props, timeout=300, bound=bound))
    return rows


GROUPS["lexer"]["harnesses"] = _lexer_harnesses()

PARSER_H = dict(module="parser::__verif_k", src="src/parser.rs")
GROUPS["lexer"]["extra"] = {"src/parser.rs": ["parser_proofs.rs"]}
GROUPS["lexer"]["jobs"] = 16  # lexer harnesses stay below 5 GB each (measured)
GROUPS["lexer"]["functions"].append("parser.rs: Parser::parse_string_expression (decoder of the raw text between the quotes), Parser::new / advance on the empty text")
GROUPS["lexer"]["stubs"].append("alloc::string::String::push (decoder harnesses only) -> appends the UTF-8 bytes into the reserved capacity and ASSERTS that the capacity "
                                "suffices (no re-allocation: CBMC's realloc with a symbolic size does not finish)")
GROUPS["lexer"]["harnesses"] += [
    H("c08_decode_sym3", ["C08"], timeout=400, bound="every raw literal body of 0..=3 characters over { backslash, quote, n, t, a, space } the lexer can hand over", **PARSER_H),
    H("c08_decode_sym4", ["C08"], "thorough", 900, True, bound="every raw literal body of 0..=4 characters over the same alphabet", **PARSER_H),
    H("c08_decode_prefixed", ["C08"], timeout=400, bound="raw bodies: four backslashes / backslash backslash n / a, escaped quote, b / backslash x, each + 0..=1 symbolic character", **PARSER_H),
    H("c08_decode_nonascii_before_escape", ["C08"], timeout=400, bound="raw bodies: e-acute backslash t / three letters with non-ASCII backslash n, + 0..=1 symbolic character", **PARSER_H),
]


def harnesses_for(prop, tier):
    out = []
    for gname, g in GROUPS.items():
        hs = [h for h in g["harnesses"] if (prop in h.props and (tier == "thorough" or h.tier == "quick"))
              or (tier == "thorough" and prop in h.tprops)]
        if hs:
            out.append((gname, g, hs))
    return out
