"""Registry of Kani harnesses (Engine K): which harness serves which property, in which tier, with which bound.

H(name, props, tier, timeout_s, optional, bound)
  tier      'quick'  : run in both tiers;  'thorough' : thorough tier only
  optional  True     : 'undecided' (solver cap) is tolerated and reported as not decided
"""


class H:
    def __init__(self, name, props, tier="quick", timeout=150, optional=False, bound="", tprops=None):
        self.name, self.props, self.tier, self.timeout, self.optional, self.bound = name, props, tier, timeout, optional, bound
        self.tprops = tprops or []  # properties that include this harness in the thorough tier only


GROUPS = {
    "object": {
        "src": "src/object.rs",
        "harness_file": "object_proofs.rs",
        "module": "object::__verif_k",
        "functions": ["object.rs: Object::{int,as_int,bool,as_bool,null,function,function_with_arity,as_function,function_arity,tag,"
                      "is_heap_allocated,as_ptr,as_f64,as_str,as_vec}, Float::from_f64, String::from_string, Array::from_vec, "
                      "PartialEq/PartialOrd for Object, impl_arith!/impl_cmp!/impl_logical! expansions (add sub mul div rem gt gte lt lte eq neq and or)"],
        "stubs": ["alloc::fmt::format -> empty String (error messages are outside every property)",
                  "GC::trace -> no-op (objects leak in the model; collection is C03/C04)"],
        "harnesses": [
            H("c15_int_roundtrip", ["C15"], bound="all 2^61 integers"),
            H("c15_bool_null_roundtrip", ["C15"], bound="both booleans, null"),
            H("c15_function_roundtrip", ["C15"], bound="all 2^32 x 2^16 x 2^8 (entry, locals, arity) descriptors"),
            H("c15_float_roundtrip", ["C15"], bound="all 2^64 float bit patterns"),
            H("c15_string_roundtrip", ["C15"], bound="8-entry literal table: empty, ASCII, 2/3/4-byte code points"),
            H("c15_array_roundtrip", ["C15"], bound="arrays of length 0..=3 of arbitrary immediates"),
            H("c15_tag_of_every_shape", ["C15"], bound="any value of any of the 7 types (arrays <= 2 immediates)"),
            H("c15_eq_pairwise", ["C15"], bound="full product of two arbitrary scalar/text/function values"),
            H("c15_int_eq_exact", ["C15", "C06"], bound="all 2^61 x 2^61 integer pairs"),
            H("c15_float_eq_exact", ["C15"], bound="all 2^64 x 2^64 float bit patterns"),
            H("c06_int_add", ["C06", "C05"], bound="all 2^61 x 2^61 pairs"),
            H("c06_int_sub", ["C06", "C05"], bound="all 2^61 x 2^61 pairs"),
            H("c06_int_mul_small", ["C06"], bound="|a|,|b| <= 2^16, both symbolic"),
            H("c06_int_mul_const", ["C06", "C05"], bound="a: all 2^61; b in {2,-3,7,10,-10,2^30,MAX,MIN}"),
            H("c06_int_mul_const_l", ["C06"], bound="a in {2,-3,7,10,-10,2^30,MAX,MIN}; b: all 2^61"),
            H("c06_int_div_unit", ["C06", "C05"], bound="a: all 2^61; b in {-1,0,1}"),
            H("c06_int_rem_unit", ["C06", "C05"], bound="a: all 2^61; b in {-1,0,1}"),
            H("c06_int_div_ends", ["C06"], bound="a: all 2^61; b in {MIN,MAX}"),
            H("c06_int_rem_ends", ["C06"], bound="a: all 2^61; b in {MIN,MAX}"),
            H("c06_int_div_const", ["C06"], bound="a: all 2^61; b in {2,-3,7,10,-10,2^30,MAX,MIN}"),
            H("c06_int_rem_const", ["C06"], bound="a: all 2^61; b in {2,-3,7,10,-10,2^30,MAX,MIN}"),
            H("c06_int_div_const_l", ["C06"], "thorough", 600, True, bound="a in {2,-3,7,10,-10,2^30,MAX,MIN}; b: all 2^61"),
            H("c06_int_rem_const_l", ["C06"], "thorough", 600, True, bound="a in {2,-3,7,10,-10,2^30,MAX,MIN}; b: all 2^61"),
            H("c06_int_div_small", ["C06"], "thorough", 900, True, bound="|a| <= 2^20, |b| <= 2^10, both symbolic"),
            H("c06_int_rem_small", ["C06"], "thorough", 900, True, bound="|a| <= 2^20, |b| <= 2^10, both symbolic"),
            H("c06_int_div_full", ["C06"], "thorough", 900, True, bound="all 2^61 x 2^61 pairs (attempted)"),
            H("c06_int_rem_full", ["C06"], "thorough", 900, True, bound="all 2^61 x 2^61 pairs (attempted)"),
            H("c06_int_lt", ["C06"], bound="all 2^61 x 2^61 pairs"),
            H("c06_int_lte", ["C06"], bound="all 2^61 x 2^61 pairs"),
            H("c06_int_gt", ["C06"], bound="all 2^61 x 2^61 pairs"),
            H("c06_int_gte", ["C06"], bound="all 2^61 x 2^61 pairs"),
            H("c06_int_eq", ["C06"], bound="all 2^61 x 2^61 pairs"),
            H("c06_int_neq", ["C06"], bound="all 2^61 x 2^61 pairs"),
            H("c06_float_add", ["C06"], bound="all 2^64 x 2^64 bit patterns"),
            H("c06_float_sub", ["C06"], bound="all 2^64 x 2^64 bit patterns"),
            H("c06_float_mul", ["C06"], "thorough", 900, True, bound="all 2^64 x 2^64 bit patterns"),
            H("c06_float_div", ["C06"], "thorough", 900, True, bound="all 2^64 x 2^64 bit patterns (attempted)"),
            H("c06_float_lt", ["C06", "C05"], bound="all 2^64 x 2^64 bit patterns"),
            H("c06_float_lte", ["C06", "C05"], bound="all 2^64 x 2^64 bit patterns"),
            H("c06_float_gt", ["C06", "C05"], bound="all 2^64 x 2^64 bit patterns"),
            H("c06_float_gte", ["C06", "C05"], bound="all 2^64 x 2^64 bit patterns"),
            H("c06_float_eq", ["C06"], bound="all 2^64 x 2^64 bit patterns"),
            H("c06_float_neq", ["C06"], bound="all 2^64 x 2^64 bit patterns"),
            H("c06_string_cmp_ascii2", ["C06"], bound="all pairs of ASCII texts of length 0..=2, six comparisons"),
            H("c06_string_cmp_t4", ["C06"], "thorough", 300, True, bound="'é' against the 8-entry literal table"),
            H("c06_string_cmp_t5", ["C06"], "thorough", 300, True, bound="'aé' against the 8-entry literal table"),
            H("c06_string_cmp_t6", ["C06"], "thorough", 300, True, bound="'€' against the 8-entry literal table"),
            H("c06_cross_type_all_ops", ["C06", "C05"], bound="13 operators x all unsupported (type,type) combinations of the 7 types"),
            H("c06_bool_logic_and_order", ["C06"], bound="4 boolean pairs"),
            H("c06_function_eq", ["C06", "C15"], bound="all pairs of (entry, locals) descriptors"),
        ],
    },
}


VM_STUBS = ["alloc::fmt::format -> empty String", "VM::next -> first call: installs bp, consumes the opcode byte, returns the contract's opcode; second call: Halt (single step)",
            "GC::{trace,maybe_trace,untrace,destroy} -> no-op, GC::run -> recorder of the root slices (collection itself: gc.rs harnesses)"]
CW = "stack window: 1-4 arbitrary immediates (null/bool/61-bit int/function descriptor), symbolic operands; "

GROUPS["vm"] = {
    "stub_based": True,
    "src": "src/vm.rs",
    "extra": {"src/object.rs": ["object_proofs.rs"]},
    "harness_file": "vm_proofs.rs",
    "module": "vm::__verif_k",
    "functions": ["vm.rs: VM::run / run_with_gc dispatch loop (one arm per harness), VM::{next,read_u8,read_u16,pop,push,get_local,set_local,jump,pushframe,popframe}, "
                  "index_get, index_set, index_get_array, index_set_array, index_get_string, index_set_string"],
    "stubs": VM_STUBS,
    "harnesses": [
        H("k_next_real", ["C02"], bound="any opcode byte the compiler can emit (0..=Halt), real get_unchecked + transmute; read_u8/read_u16", tprops=["C01", "C05"]),
        H("k_push_null", ["C02", "C11"], bound=CW + "Null", tprops=["C01", "C05"]),
        H("k_push_true", ["C02", "C11"], bound=CW + "True", tprops=["C01", "C05"]),
        H("k_push_false", ["C02", "C11"], bound=CW + "False", tprops=["C01", "C05"]),
        H("k_pop_sets_result", ["C02", "C11"], bound=CW + "Pop", tprops=["C01", "C05"]),
        H("k_halt_and_prologue", ["C02", "C11", "C17"], bound=CW + "run() from an arbitrary retained ip/bp/frame 0/globals", tprops=["C01", "C05"]),
        H("k_const", ["C02", "C12", "C10"], bound=CW + "1-3 constants, any index in range", tprops=["C01", "C05"]),
        H("k_const_string_is_copied", ["C02", "C10", "C13"], bound="string constant 'ab'", tprops=["C01"]),
        H("k_set_global_existing", ["C02", "C09", "C17"], bound=CW + "2 globals, index < 2", tprops=["C01", "C05", "C10"]),
        H("k_set_global_grows", ["C02", "C09", "C17"], bound=CW + "1 global, index 3", tprops=["C01", "C05"]),
        H("k_get_global", ["C02", "C05", "C09", "C17"], bound=CW + "0-2 globals, ANY 16-bit index", tprops=["C01", "C10"]),
        # k_local_slot_wide (70 000-slot stack, slot arithmetic beyond 65 535) is kept in vm_proofs.rs but not registered:
        # CBMC aborts (status 6) on the 560 KB stack object; the 16-bit limits are outside the claim (DESIGN.md 4.3-6)
        H("k_get_local", ["C02", "C09", "C12"], bound=CW + "4 slots, any bp+idx < 4", tprops=["C01", "C05", "C10"]),
        H("k_set_local", ["C02", "C09", "C12"], bound=CW + "4 slots, any bp+idx < 3", tprops=["C01", "C05", "C10"]),
        H("k_jump", ["C02", "C11"], bound=CW + "any 16-bit target", tprops=["C01", "C05"]),
        H("k_jump_if_false", ["C02", "C05", "C11"], bound=CW + "any condition value, any 16-bit target", tprops=["C01"]),
        H("k_not", ["C02", "C05"], bound=CW + "any operand", tprops=["C01", "C06"]),
        H("k_negate", ["C02", "C05"], bound=CW + "any immediate operand incl. MIN_INT", tprops=["C01", "C06"]),
        H("k_negate_float", ["C02"], bound="any f64 bit pattern", tprops=["C01", "C06"]),
        H("k_call", ["C02", "C05", "C12"], bound=CW + "0-2 arguments, callee any immediate, num_locals <= arity+3", tprops=["C01"]),
        H("k_return_value", ["C02", "C12", "C03"], bound=CW + "2-3 frames, any callee base <= 3; records the root slices given to the collector", tprops=["C01", "C05", "C04"]),
        H("k_return", ["C02", "C12", "C03"], bound=CW + "2-3 frames, any callee base <= 4; records the root slices given to the collector", tprops=["C01", "C05", "C04"]),
        H("k_array_0", ["C02", "C13"], bound=CW + "Array 0", tprops=["C01", "C05"]),
        H("k_array_2", ["C02", "C13"], bound=CW + "Array 2", tprops=["C01", "C05"]),
        H("k_array_3", ["C02", "C13"], bound=CW + "Array 3", tprops=["C01", "C05"]),
        H("k_call_builtin_0", ["C02", "C14"], bound=CW + "0 arguments, any builtin number 0..=6 (builtins::call stubbed: recorder)", tprops=["C01", "C05"]),
        H("k_call_builtin_1", ["C02", "C14"], bound=CW + "1 argument", tprops=["C01", "C05"]),
        H("k_call_builtin_3", ["C02", "C14"], bound=CW + "3 arguments", tprops=["C01", "C05"]),
        H("k_index_get_plumbing", ["C02", "C13"], bound=CW + "index_get stubbed: recorder", tprops=["C01", "C05"]),
        H("k_index_set_plumbing", ["C02", "C13"], bound=CW + "index_set stubbed: recorder", tprops=["C01", "C05"]),
    ]
    + [H("k_binop_" + n, ["C02"], bound=CW + ("kernel stubbed: recorder (operand order, plumbing)" if n in ("mul", "div", "rem") else "real kernel as oracle"),
         tprops=["C01", "C05", "C06"]) for n in ("add", "sub", "mul", "div", "rem", "lt", "lte", "gt", "gte", "eq", "neq", "and", "or")]
    + [H("k_fused_" + n, ["C02", "C10"], bound=CW + "variable slot bp+idx < 3, 2 constants" + ("; kernel stubbed: recorder" if n in ("mul", "div", "rem") else ""),
         tprops=["C01", "C05", "C06"]) for n in ("add", "sub", "mul", "div", "rem", "lt", "lte", "gt", "gte", "eq", "neq")]
    + [H(n, ["C13"], "thorough" if "string" in n else "quick", 600 if "string" in n else 150, "string" in n, bound=b, tprops=["C01", "C05"]) for n, b in [
        ("c13_array_get_0", "empty list, ANY isize index"), ("c13_array_set_0", "empty list, ANY isize index"),
        ("c13_array_get_1", "1-element list, ANY isize index"), ("c13_array_set_1", "1-element list, ANY isize index"),
        ("c13_array_get_3", "3-element list, ANY isize index"), ("c13_array_set_3", "3-element list, ANY isize index"),
        ("c13_string_get_empty", "'' , ANY isize index"), ("c13_string_set_empty", "'', ANY isize index, text / non-text value"),
        ("c13_string_get_ab", "'ab', ANY isize index"), ("c13_string_set_ab", "'ab', ANY isize index, text / non-text value"),
        ("c13_string_get_mixed", "'aé€' (1-,2-,3-byte code points), ANY isize index"), ("c13_string_set_mixed", "'aé€', ANY isize index, text / non-text value"),
        ("c13_string_get_flag", "'🇳x' (4-byte code point), ANY isize index"), ("c13_string_set_flag", "'🇳x', ANY isize index, text / non-text value"),
    ]]
    + [H("c13_index_type_errors", ["C13"], "thorough", 600, True, bound="every (container, index) type pair except (sequence, int), get and set", tprops=["C01"])],
}

GROUPS["builtins"] = {
    "src": "src/builtins.rs",
    "extra": {"src/object.rs": ["object_proofs.rs"]},
    "harness_file": "builtins_proofs.rs",
    "module": "builtins::__verif_k",
    "functions": ["builtins.rs: call, call_type, call_string, call_bool, call_int, call_float, call_length"],
    "stubs": ["alloc::fmt::format -> empty String", "GC::trace -> no-op"],
    "harnesses": [
        H("c14_arity_0", ["C14", "C05"], bound="6 builtins x 0 arguments"),
        H("c14_arity_2", ["C14"], "thorough", 900, True, bound="6 builtins x 2 arbitrary immediates"),
        H("c14_arity_3", ["C14"], "thorough", 900, True, bound="6 builtins x 3 arbitrary immediates"),
        H("c14_bool", ["C14"], bound="any value of the 7 types (61-bit ints, all f64 bit patterns, literal-table text, lists <= 2)"),
        H("c14_int_float_of_immediates", ["C14"], "thorough", 900, True, bound="null, both booleans, all 2^61 ints, all function descriptors"),
        H("c14_int_of_float", ["C14"], "thorough", 900, True, bound="all 2^64 float bit patterns"),
        H("c14_type_names", ["C14"], timeout=300, bound="any value of the 7 types"),
        H("c14_lengte", ["C14"], "thorough", 600, True, bound="any value of the 7 types; text from the literal table (1- to 4-byte code points)"),
        H("c14_string_non_numeric", ["C14"], "thorough", 600, True, bound="null, bool, text, list, function"),
        H("c14_int_of_text", ["C14"], "thorough", 600, True, bound="8 decimal / padded / negative / non-numeric / out-of-range texts"),
    ],
}

GC_B = "heap shape and root set fixed by the harness, float payloads: all 2^64 bit patterns; "
GROUPS["gc"] = {
    "src": "src/gc.rs",
    "harness_file": "gc_proofs.rs",
    "module": "gc::__verif_k",
    "shims": ["bitvec"],
    "functions": ["gc.rs: GC::{new,trace,maybe_trace,untrace,run,mark,sweep,destroy} (verbatim)",
                  "object.rs: Object::{float,string,array,free,free_recursive,as_vec,as_vec_mut,as_ptr,tag,is_heap_allocated}"],
    "stubs": ["crate bitvec -> 80-line Vec<bool> model with bounds-CHECKED get_unchecked/set_unchecked (overlay [patch.crates-io]; "
              "that the real crate implements a vector of bits is trusted)"],
    "harnesses": [
        H("c03_floats_keep_none", ["C03", "C04"], timeout=300, bound=GC_B + "2 floats, no root"),
        H("c03_floats_keep_a", ["C03", "C04"], timeout=300, bound=GC_B + "2 floats, first rooted (roots in 2 slices, an immediate among them)"),
        H("c03_floats_keep_b", ["C03", "C04"], timeout=300, bound=GC_B + "2 floats, second rooted"),
        H("c03_floats_keep_both", ["C03", "C04"], timeout=300, bound=GC_B + "2 floats, both rooted"),
        H("c03_list_keeps_its_elements", ["C03", "C04"], timeout=300, bound=GC_B + "list [float, int, text] + loose float; root = list; then no roots"),
        H("c03_alias_through_two_lists", ["C03"], timeout=300, bound=GC_B + "one float in two lists, one list rooted"),
        H("c03_cycle_and_nesting", ["C03", "C04"], timeout=300, bound=GC_B + "list containing itself and a nested list"),
        H("c03_store_into_survivor_then_collect", ["C03"], timeout=300, bound=GC_B + "two collections with a store into the survivor in between"),
        H("c04_untrace_hands_over", ["C04", "C03"], timeout=300, bound=GC_B + "result graph handed to the caller, later store, two collections, caller frees"),
        H("c04_adopt_and_release", ["C04"], timeout=300, bound="two collectors, adoption of a foreign float, immediates never adopted"),
    ],
}

LX = "first character concrete (enumerated), then "
GROUPS["lexer"] = {
    "src": "src/lexer.rs",
    "harness_file": "lexer_proofs.rs",
    "module": "lexer::__verif_k",
    "functions": ["lexer.rs: <Tokenizer as Iterator>::next, Tokenizer::{new,peek,is_eof,bump,offset,read_str,skip_while}, "
                  "<Token as From<&str>>::from (keyword table), is_whitespace"],
    "stubs": ["char::is_alphabetic / char::is_alphanumeric -> exact on ASCII; 16-entry table for the non-ASCII characters used; panic outside the table "
              "(that the Unicode tables of core are right is trusted)",
              "core::str::slice_error_fail -> panic (a slice at a non-boundary is reported as a failure)"],
    "harnesses": [
        H("c08_first_two_char_ops", ["C08", "C05"], bound=LX + "0..=2 symbolic ASCII bytes (every length), 1 symbolic byte already consumed; first in = ! < > & |"),
        H("c08_first_punct_a", ["C08", "C05"], bound=LX + "2 symbolic ASCII bytes; first in ; , . ( ) { }"),
        H("c08_first_punct_b", ["C08", "C05"], bound=LX + "2 symbolic ASCII bytes; first in [ ] - + * ^ %"),
        H("c08_first_illegal_ascii", ["C08", "C05"], bound=LX + "2 symbolic ASCII bytes; first in # $ ' : ? @ \\ ` ~ NUL BEL ESC DEL"),
        H("c08_first_illegal_nonascii", ["C08", "C05"], bound=LX + "2 symbolic ASCII bytes; first in EURO SIGN, REGIONAL INDICATOR N (4 bytes), NBSP, ARABIC-INDIC 3, SUPERSCRIPT 2"),
        H("c08_first_digit", ["C08", "C05"], timeout=300, bound=LX + "0..=3 symbolic ASCII bytes (every length); first in 0 5 9"),
        H("c08_first_digit_k4", ["C08"], "thorough", 900, True, bound=LX + "0..=4 symbolic ASCII bytes; first in 1 8"),
        H("c08_first_quote", ["C08", "C05"], timeout=300, bound="opening quote, then 0..=4 symbolic ASCII bytes (escapes, closing quote or none)"),
        H("c08_first_letter_kw_a", ["C08", "C05"], timeout=300, bound=LX + "0..=3 symbolic ASCII bytes; first in a s j (keyword initials)"),
        H("c08_first_letter_kw_b", ["C08", "C05"], timeout=300, bound=LX + "0..=3 symbolic ASCII bytes; first in n z f v (keyword initials)"),
        H("c08_first_letter_other", ["C08", "C05"], timeout=300, bound=LX + "0..=3 symbolic ASCII bytes; first in b Z _"),
        H("c08_first_letter_nonascii", ["C08", "C05"], timeout=300, bound=LX + "0..=3 symbolic ASCII bytes; first in e-acute, pi, OMEGA"),
        H("c08_first_letter_k4", ["C08"], "thorough", 900, True, bound=LX + "0..=4 symbolic ASCII bytes; first in a x"),
        H("c08_keyword_long_a", ["C08"], timeout=300, bound="antwoord / antwoor / volgende / volgend + 2 symbolic ASCII bytes"),
        H("c08_keyword_long_b", ["C08"], timeout=300, bound="functie / functi / zolang / zolan / anders / ander + 2 symbolic ASCII bytes"),
        H("c08_keyword_short", ["C08"], timeout=300, bound="als stel stop nee ja Als jA + 2 symbolic ASCII bytes"),
        H("c08_ident_inner", ["C08"], timeout=300, bound="8 two-character identifier starts (digit, underscore, non-ASCII letter / non-letter inside) + 2 symbolic ASCII bytes"),
        H("c08_number_inner", ["C08"], timeout=300, bound="6 number starts (one / two decimal points, non-ASCII after) + 3 symbolic ASCII bytes"),
        H("c08_string_inner", ["C08"], timeout=300, bound="7 string starts (escaped quote, escaped backslash, non-ASCII content) + 3 symbolic ASCII bytes"),
        H("c08_ws_ascii_a", ["C08", "C05"], timeout=300, bound="space/tab/newline x 5 followers + 1 symbolic ASCII byte"),
        H("c08_ws_ascii_b", ["C08", "C05"], timeout=300, bound="CR/VT/FF x 5 followers + 1 symbolic ASCII byte"),
        H("c08_ws_unicode_a", ["C08"], timeout=300, bound="U+0085/U+200E/U+200F x 5 followers + 1 symbolic ASCII byte"),
        H("c08_ws_unicode_b", ["C08"], timeout=300, bound="U+2028/U+2029/mixed run x 5 followers + 1 symbolic ASCII byte"),
        H("c08_comment_to_eol", ["C08", "C05"], timeout=300, bound="5 comment shapes x 5 followers + 1 symbolic ASCII byte"),
        H("c08_comment_to_eof", ["C08", "C05"], timeout=300, bound="4 comments ending at the end of the text"),
        H("c08_comment_symbolic_body", ["C08"], timeout=300, bound="// + 2 symbolic non-newline ASCII bytes + newline + x1"),
        H("c08_stream_a", ["C08"], timeout=300, bound="4 whole texts (declaration, comparisons, logic) with symbolic letters/digits at marked positions; every token"),
        H("c08_stream_b", ["C08"], timeout=300, bound="4 whole texts (call/index, string, arithmetic, comment) with symbolic letters/digits; every token"),
        H("c08_stream_c", ["C08"], timeout=300, bound="3 whole texts (if/else, loop, operators) with symbolic letters/digits; every token"),
    ],
}

GROUPS["parser"] = {
    "src": "src/parser.rs",
    "harness_file": "parser_proofs.rs",
    "module": "parser::__verif_k",
    "functions": ["parser.rs: Parser::parse_string_expression (decoder of the raw text between the quotes), Parser::new / advance on the empty text"],
    "stubs": ["core::str::slice_error_fail -> panic"],
    "harnesses": [
        H("c08_decode_sym3", ["C08"], timeout=400, bound="every raw literal body of 0..=3 characters over { backslash, quote, n, t, a, space } the lexer can hand over"),
        H("c08_decode_sym4", ["C08"], "thorough", 900, True, bound="every raw literal body of 0..=4 characters over the same alphabet"),
        H("c08_decode_prefixed", ["C08"], timeout=400, bound="5 concrete starts (two escaped backslashes, escaped backslash then n, escaped quote inside, non-ASCII then tab, unknown escape) + 2 symbolic characters"),
    ],
}


def harnesses_for(prop, tier):
    out = []
    for gname, g in GROUPS.items():
        hs = [h for h in g["harnesses"] if (prop in h.props and (tier == "thorough" or h.tier == "quick"))
              or (tier == "thorough" and prop in h.tprops)]
        if hs:
            out.append((gname, g, hs))
    return out
