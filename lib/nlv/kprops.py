"""Registry of Kani harnesses (Engine K): which harness serves which property, in which tier, with which bound.

H(name, props, tier, timeout_s, optional, bound)
  tier      'quick'  : run in both tiers;  'thorough' : thorough tier only
  optional  True     : 'undecided' (solver cap) is tolerated and reported as not decided
"""


class H:
    def __init__(self, name, props, tier="quick", timeout=150, optional=False, bound="", unwind=None):
        self.name, self.props, self.tier, self.timeout, self.optional, self.bound = name, props, tier, timeout, optional, bound


GROUPS = {
    "object": {
        "src": "src/object.rs",
        "harness_file": "object_proofs.rs",
        "module": "object::__verif_k",
        "functions": ["object.rs: Object::{int,as_int,bool,as_bool,null,function,function_with_arity,as_function,function_arity,tag,"
                      "is_heap_allocated,as_ptr,as_f64,as_str,as_vec}, Float::from_f64, String::from_string, Array::from_vec, "
                      "PartialEq/PartialOrd for Object, impl_arith!/impl_cmp!/impl_logical! expansions (add sub mul div rem gt gte lt lte eq neq and or)"],
        "stubs": ["alloc::fmt::format -> empty String (error messages are outside every property)",
                  "GC::trace -> no-op (objects leak in the model; collection is C03/C04)"],
        "harnesses": [
            H("c15_int_roundtrip", ["C15"], bound="all 2^61 integers"),
            H("c15_bool_null_roundtrip", ["C15"], bound="both booleans, null"),
            H("c15_function_roundtrip", ["C15"], bound="all 2^32 x 2^16 x 2^8 (entry, locals, arity) descriptors"),
            H("c15_float_roundtrip", ["C15"], bound="all 2^64 float bit patterns"),
            H("c15_string_roundtrip", ["C15"], bound="8-entry literal table: empty, ASCII, 2/3/4-byte code points"),
            H("c15_array_roundtrip", ["C15"], bound="arrays of length 0..=3 of arbitrary immediates"),
            H("c15_tag_of_every_shape", ["C15"], bound="any value of any of the 7 types (arrays <= 2 immediates)"),
            H("c15_eq_pairwise", ["C15"], bound="full product of two arbitrary scalar/text/function values"),
            H("c06_int_add", ["C06", "C05"], bound="all 2^61 x 2^61 pairs"),
            H("c06_int_sub", ["C06", "C05"], bound="all 2^61 x 2^61 pairs"),
            H("c06_int_mul_small", ["C06"], bound="|a|,|b| <= 2^16, both symbolic"),
            H("c06_int_mul_const", ["C06", "C05"], bound="a: all 2^61; b in {2,-3,7,10,-10,2^30,MAX,MIN}"),
            H("c06_int_mul_const_l", ["C06"], bound="a in {2,-3,7,10,-10,2^30,MAX,MIN}; b: all 2^61"),
            H("c06_int_div_unit", ["C06", "C05"], bound="a: all 2^61; b in {-1,0,1}"),
            H("c06_int_rem_unit", ["C06", "C05"], bound="a: all 2^61; b in {-1,0,1}"),
            H("c06_int_div_ends", ["C06"], bound="a: all 2^61; b in {MIN,MAX}"),
            H("c06_int_rem_ends", ["C06"], bound="a: all 2^61; b in {MIN,MAX}"),
            H("c06_int_div_const", ["C06"], bound="a: all 2^61; b in {2,-3,7,10,-10,2^30,MAX,MIN}"),
            H("c06_int_rem_const", ["C06"], bound="a: all 2^61; b in {2,-3,7,10,-10,2^30,MAX,MIN}"),
            H("c06_int_div_const_l", ["C06"], "thorough", 600, True, bound="a in {2,-3,7,10,-10,2^30,MAX,MIN}; b: all 2^61"),
            H("c06_int_rem_const_l", ["C06"], "thorough", 600, True, bound="a in {2,-3,7,10,-10,2^30,MAX,MIN}; b: all 2^61"),
            H("c06_int_div_small", ["C06"], "thorough", 900, True, bound="|a| <= 2^20, |b| <= 2^10, both symbolic"),
            H("c06_int_rem_small", ["C06"], "thorough", 900, True, bound="|a| <= 2^20, |b| <= 2^10, both symbolic"),
            H("c06_int_div_full", ["C06"], "thorough", 900, True, bound="all 2^61 x 2^61 pairs (attempted)"),
            H("c06_int_rem_full", ["C06"], "thorough", 900, True, bound="all 2^61 x 2^61 pairs (attempted)"),
            H("c06_int_lt", ["C06"], bound="all 2^61 x 2^61 pairs"),
            H("c06_int_lte", ["C06"], bound="all 2^61 x 2^61 pairs"),
            H("c06_int_gt", ["C06"], bound="all 2^61 x 2^61 pairs"),
            H("c06_int_gte", ["C06"], bound="all 2^61 x 2^61 pairs"),
            H("c06_int_eq", ["C06"], bound="all 2^61 x 2^61 pairs"),
            H("c06_int_neq", ["C06"], bound="all 2^61 x 2^61 pairs"),
            H("c06_float_add", ["C06"], bound="all 2^64 x 2^64 bit patterns"),
            H("c06_float_sub", ["C06"], bound="all 2^64 x 2^64 bit patterns"),
            H("c06_float_mul", ["C06"], "thorough", 900, True, bound="all 2^64 x 2^64 bit patterns"),
            H("c06_float_div", ["C06"], "thorough", 900, True, bound="all 2^64 x 2^64 bit patterns (attempted)"),
            H("c06_float_lt", ["C06"], bound="all 2^64 x 2^64 bit patterns"),
            H("c06_float_lte", ["C06"], bound="all 2^64 x 2^64 bit patterns"),
            H("c06_float_gt", ["C06"], bound="all 2^64 x 2^64 bit patterns"),
            H("c06_float_gte", ["C06"], bound="all 2^64 x 2^64 bit patterns"),
            H("c06_float_eq", ["C06"], bound="all 2^64 x 2^64 bit patterns"),
            H("c06_float_neq", ["C06"], bound="all 2^64 x 2^64 bit patterns"),
            H("c06_string_cmp_ascii2", ["C06"], bound="all pairs of ASCII texts of length 0..=2, six comparisons"),
            H("c06_string_cmp_t4", ["C06"], "thorough", 300, True, bound="'é' against the 8-entry literal table"),
            H("c06_string_cmp_t5", ["C06"], "thorough", 300, True, bound="'aé' against the 8-entry literal table"),
            H("c06_string_cmp_t6", ["C06"], "thorough", 300, True, bound="'€' against the 8-entry literal table"),
            H("c06_cross_type_all_ops", ["C06", "C05"], bound="13 operators x all unsupported (type,type) combinations of the 7 types"),
            H("c06_bool_logic_and_order", ["C06"], bound="4 boolean pairs"),
            H("c06_function_eq", ["C06", "C15"], bound="all pairs of (entry, locals) descriptors"),
        ],
    },
}


def harnesses_for(prop, tier):
    out = []
    for gname, g in GROUPS.items():
        hs = [h for h in g["harnesses"] if prop in h.props and (tier == "thorough" or h.tier == "quick")]
        if hs:
            out.append((gname, g, hs))
    return out
