"""Engine K: run Kani proof harnesses on an overlay of /repo's current tree (DESIGN.md 2.2).

One `cargo kani` process per batch of harnesses, each batch in its own persistent target dir,
all batches in parallel.  Every harness gets: unwinding assertions on, cover-witness check
(an unsatisfied kani::cover! makes the harness VACUOUS = failure of the check machinery, exit 2),
a wall-clock cap and a memory cap.  Timeouts / OOM are 'undecided', never 'pass'.
"""
import os
import re
import resource
import subprocess
import threading
import time

from . import overlay as ov

NJOBS = int(os.environ.get("NLV_JOBS", "12"))


class HarnessResult:
    def __init__(self, name):
        self.name = name
        self.status = "undecided"  # success | failed | undecided | vacuous | builderror
        self.reason = ""
        self.solve_s = None
        self.wall_s = None
        self.covers = (0, 0)
        self.failed_checks = []
        self.log = ""
        self.ignored_checks = []

    def to_json(self):
        return {
            "harness": self.name, "status": self.status, "reason": self.reason,
            "solver_s": self.solve_s, "wall_s": self.wall_s,
            "covers_satisfied": self.covers[0], "covers_total": self.covers[1],
            "failed_checks": self.failed_checks[:8],
        }


def _limits(mem_gb):
    def f():
        b = int(mem_gb * (1 << 30))
        resource.setrlimit(resource.RLIMIT_AS, (b, b))
        os.setsid()
    return f


def parse_output(text, names):
    """Split cargo-kani terse output into per-harness results."""
    res = {n: HarnessResult(n) for n in names}
    # sections start with "Checking harness <path>..."
    parts = re.split(r"^Checking harness (\S+?)\.\.\.\s*$", text, flags=re.M)
    # parts[0] = preamble, then name, body, name, body ...
    for i in range(1, len(parts) - 1, 2):
        full, body = parts[i], parts[i + 1]
        short = full.split("::")[-1]
        r = res.get(full) or res.get(short)
        if r is None:
            continue
        r.log = body[-6000:]
        m = re.search(r"Verification Time: ([0-9.]+)s", body)
        if m:
            r.solve_s = float(m.group(1))
        m = re.search(r"\*\* (\d+) of (\d+) cover properties satisfied", body)
        if m:
            r.covers = (int(m.group(1)), int(m.group(2)))
        fails = re.findall(r"Failed Checks: (.*)", body)
        # Kani's optional float check flags any NaN-producing operation; IEEE results are what C06 asks for
        r.ignored_checks = [f for f in fails if re.match(r"NaN on ", f)]
        fails = [f for f in fails if not re.match(r"NaN on ", f)]
        r.failed_checks = fails
        if "CBMC timed out" in body:
            r.status, r.reason = "undecided", "solver timeout"
        elif "run out of memory" in body:
            r.status, r.reason = "undecided", "solver out of memory"
        elif re.search(r"VERIFICATION:- SUCCESSFUL", body):
            if r.covers[0] < r.covers[1]:
                r.status, r.reason = "vacuous", "unsatisfied cover witness"
            else:
                r.status = "success"
        elif re.search(r"VERIFICATION:- FAILED", body):
            if not fails and r.ignored_checks and not re.search(r"out of memory|bad_alloc|Status: ERROR", body):
                if r.covers[0] < r.covers[1]:
                    r.status, r.reason = "vacuous", "unsatisfied cover witness"
                else:
                    r.status = "success"
            elif re.search(r"out of memory|std::bad_alloc|Status: ERROR|SIGKILL|memory exhausted", body, re.I) and not fails:
                r.status, r.reason = "undecided", "solver error / out of memory"
            elif fails and all("unwinding assertion" in f for f in fails):
                r.status, r.reason = "undecided", "unwinding bound too small"
            elif fails:
                r.status, r.reason = "failed", "; ".join(fails[:3])
            else:
                r.status, r.reason = "undecided", "FAILED without failed checks (solver error?)"
    return res


class KaniRun:
    def __init__(self, appends, tag="nlv-kani", shims=None):
        self.overlay = ov.Overlay(appends=appends, tag=tag, shims=shims)
        self.target_suffix = "-shim" if shims else ""
        self.results = {}
        self.wall_s = 0.0
        self.cmds = []

    def _batch(self, idx, names, timeout_s, mem_gb, unwind, extra, out):
        tdir = os.path.join(ov.CACHE, "target-kani%s-%d" % (self.target_suffix, idx))
        cmd = ["cargo", "kani", "-Z", "stubbing", "-Z", "unstable-options", "--target-dir", tdir,
               "--output-format", "terse", "--exact",
               "--harness-timeout", "%ds" % timeout_s, "--default-unwind", str(unwind)]
        for n in names:
            cmd += ["--harness", n]
        cmd += extra
        self.cmds.append(" ".join(cmd))
        t0 = time.time()
        total_cap = (timeout_s + 30) * len(names) + 240
        try:
            p = subprocess.Popen(cmd, cwd=self.overlay.dir, env=ov.BASE_ENV, stdout=subprocess.PIPE,
                                 stderr=subprocess.STDOUT, text=True, preexec_fn=_limits(mem_gb))
            try:
                text, _ = p.communicate(timeout=total_cap)
            except subprocess.TimeoutExpired:
                os.killpg(p.pid, 9)
                text, _ = p.communicate()
                text += "\n[nlv] batch killed after %ds\n" % total_cap
        except Exception as e:  # pragma: no cover
            text = "[nlv] could not run cargo kani: %r" % e
        wall = time.time() - t0
        res = parse_output(text, names)
        build_failed = ("error: could not compile" in text or "error[E" in text) and "Checking harness" not in text
        for n in names:
            r = res[n]
            r.wall_s = round(wall / max(1, len(names)), 1)
            if build_failed:
                r.status, r.reason = "builderror", "overlay does not compile under kani"
                r.log = text[-4000:]
            elif r.status == "undecided" and not r.reason:
                r.reason = "no verdict in output"
                r.log = text[-3000:]
        out.update(res)

    def run(self, harnesses, timeout_s=120, mem_gb=12, unwind=9, extra=None, jobs=None):
        """harnesses: list of fully qualified harness names (module::path::name)."""
        os.makedirs(ov.CACHE, exist_ok=True)
        jobs = jobs or NJOBS
        n = min(jobs, max(1, len(harnesses)))
        batches = [[] for _ in range(n)]
        for i, h in enumerate(harnesses):
            batches[i % n].append(h)
        out = {}
        t0 = time.time()
        ths = []
        for i, b in enumerate(batches):
            if not b:
                continue
            t = threading.Thread(target=self._batch, args=(i, b, timeout_s, mem_gb, unwind, extra or [], out))
            t.start()
            ths.append(t)
        for t in ths:
            t.join()
        self.wall_s += time.time() - t0
        self.results.update(out)
        return out

    def cleanup(self):
        self.overlay.cleanup()
